"""Sensitivity self-test (DESIGN.md section 5): applies each catalogued source mutant to a scratch copy of
/repo, optionally runs the pinned test-suite on it, runs the property's quick check against it and
expects exit 1 + a replay that reproduces.  Scratch copies live under mktemp and are removed.

usage: python tools_mutants.py [--tests] [--budget S] [name-or-property ...]
"""
import json
import os
import shutil
import subprocess
import sys
import tempfile

HERE = os.path.dirname(os.path.abspath(__file__))
PY = '/venv/bin/python'

# (name, property, file, old, new)
M = [
    ('c01-no-priority-break', 'C01', 'sismic/interpreter/default.py',
     "                            ignored_states.add(source)\n                            break\n",
     "                            ignored_states.add(source)\n"),
    ('c01-eventless-sees-event', 'C01', 'sismic/interpreter/default.py',
     "exposed_event = event if has_event else None", "exposed_event = event"),
    ('c01-outer-first', 'C01', 'sismic/interpreter/default.py',
     "transitions = self._select_transitions(event, states=self._configuration)",
     "transitions = self._select_transitions(event, states=self._configuration, inner_first=False)"),
    ('c01-consume-on-eventless', 'C01', 'sismic/interpreter/default.py',
     "event = None if transitions[0].event is None else event", "event = event"),
    ('c02-no-orthogonal-completion', 'C02', 'sismic/interpreter/default.py',
     "                if missing:\n                    return MicroStep(entered_states=sorted(missing))",
     "                if missing and len(missing) > 1:\n                    return MicroStep(entered_states=sorted(missing))"),
    ('c02-final-only-basic-root', 'C02', 'sismic/interpreter/default.py',
     "return self._initialized and len(self._configuration) == 0",
     "return self._initialized and len(self._configuration) <= 0 and not self._sent_events"),
    ('c03-action-before-exit-history', 'C03', 'sismic/interpreter/default.py',
     "entered_states.insert(0, state)", "entered_states.insert(0 if len(entered_states) < 3 else 1, state)"),
    ('c03-exit-order-decl', 'C03', 'sismic/interpreter/default.py',
     "key=lambda s: (-self._statechart.depth_for(s), s)):\n                # Only leave",
     "key=lambda s: (-self._statechart.depth_for(s))):\n                # Only leave"),
    ('c03-sent-events-dropped-from-trace', 'C03', 'sismic/interpreter/default.py',
     "sent_events.extend(self._evaluator.execute_on_exit(state))",
     "sent_events.extend(self._evaluator.execute_on_exit(state)[:1])"),
    ('c04-no-conflict-check', 'C04', 'sismic/interpreter/default.py',
     "if (transition.target and (transition.target not in [", "if (False and transition.target and (transition.target not in ["),
    ('c04-same-source-allowed', 'C04', 'sismic/interpreter/default.py',
     "if t1.source == t2.source or not isinstance(lca_state, OrthogonalState):",
     "if not isinstance(lca_state, OrthogonalState):"),
    ('c05-bisect-left', 'C05', 'sismic/interpreter/default.py', "bisect.bisect_right(", "bisect.bisect_left("),
    ('c05-strict-due', 'C05', 'sismic/interpreter/default.py', "if time <= self.time:", "if time < self.time:"),
    ('c05-external-first', 'C05', 'sismic/interpreter/default.py',
     "(self._internal_queue, self._external_queue)):\n            if len(queue) > 0:",
     "(self._external_queue, self._internal_queue)):\n            if len(queue) > 0:"),
    ('c05-delay-from-clock', 'C05', 'sismic/interpreter/default.py',
     "time = self.time + getattr(event, 'delay', 0)", "time = self.clock.time + getattr(event, 'delay', 0)"),
    ('c06-shallow-deep-swapped', 'C06', 'sismic/interpreter/default.py',
     "if isinstance(child, DeepHistoryState):\n                        # This MUST",
     "if isinstance(child, ShallowHistoryState) and False or isinstance(child, DeepHistoryState) and len(self._memory) % 5 == 4:\n                        # This MUST"),
    ('c06-memory-not-overwritten', 'C06', 'sismic/interpreter/default.py',
     "                        assert len(active) == 1\n                        self._memory[child.name] = list(active)",
     "                        assert len(active) == 1\n                        self._memory.setdefault(child.name, list(active))"),
    ('c06-deep-records-children-only', 'C06', 'sismic/interpreter/default.py',
     "active = active_configuration.intersection(\n                            self._statechart.descendants_for(state.name))",
     "active = active_configuration.intersection(\n                            self._statechart.children_for(state.name))"),
    ('c03-assert-fires-midway', 'C03', 'sismic/interpreter/default.py',
     "active = active_configuration.intersection(\n                            self._statechart.descendants_for(state.name))",
     "active = self._configuration.intersection(\n                            self._statechart.descendants_for(state.name))"),
    ('c13-macrostep-time-reread', 'C13', 'sismic/interpreter/default.py',
     "macro_step = MacroStep(time=self.time, steps=executed_steps)", "macro_step = MacroStep(time=self.clock.time, steps=executed_steps)"),
    ('c13-after-strict', 'C13', 'sismic/code/python.py',
     "                lambda seconds: self._interpreter.time - seconds\n                >= self._interpreter._entry_time[transition.source]",
     "                lambda seconds: self._interpreter.time - seconds\n                > self._interpreter._entry_time[transition.source]"),
    ('c13-idle-not-reset-by-internal', 'C13', 'sismic/interpreter/default.py',
     "            self._idle_time[step.transition.source] = self.time",
     "            if step.transition.target is not None:\n                self._idle_time[step.transition.source] = self.time"),
    ('c13-invariant-idle-uses-entry', 'C13', 'sismic/code/python.py',
     "                >= self._interpreter._idle_time[state_name]\n            ),\n            'received': lambda name: name == getattr(\n                event,\n                'name',\n                None),\n            'sent': lambda name: name in [\n                e.name for e in self._interpreter._sent_events],\n            'event': event,\n        }\n\n        return filter(\n            lambda c: not self._evaluate_code(c, additional_context=additional_context),\n            getattr(obj, 'invariants', [])",
     "                >= self._interpreter._entry_time[state_name]\n            ),\n            'received': lambda name: name == getattr(\n                event,\n                'name',\n                None),\n            'sent': lambda name: name in [\n                e.name for e in self._interpreter._sent_events],\n            'event': event,\n        }\n\n        return filter(\n            lambda c: not self._evaluate_code(c, additional_context=additional_context),\n            getattr(obj, 'invariants', [])"),
    ('c13-time-variable-live', 'C13', 'sismic/code/python.py',
     "            'time': self._interpreter.time,\n            'send'", "            'time': self._interpreter.clock.time,\n            'send'"),
    ('c14-no-fold-on-stop', 'C14', 'sismic/clock/clock.py',
     "            self._time += self._elapsed\n            self._play = False", "            self._play = False"),
    ('c14-guard-stored', 'C14', 'sismic/clock/clock.py', "if new_time < current_time:", "if new_time < self._time:"),
    ('c14-speed-no-rebase', 'C14', 'sismic/clock/clock.py',
     "        self._time += self._elapsed\n        self._base = time()\n        self._speed = speed", "        self._time += self._elapsed\n        self._speed = speed"),
    ('c07-exit-order-decl', 'C07', 'sismic/interpreter/default.py',
     "key=lambda s: (-self._statechart.depth_for(s), s)):\n                # Only leave",
     "key=lambda s: (-self._statechart.depth_for(s))):\n                # Only leave"),
    ('c07-hash-order-entry', 'C07', 'sismic/interpreter/default.py',
     "return MicroStep(entered_states=sorted(self._statechart.children_for(leaf.name)))",
     "return MicroStep(entered_states=list(set(self._statechart.children_for(leaf.name))))"),
    ('c08-invariants-skipped-on-empty-step', 'C08', 'sismic/interpreter/default.py',
     "        for name in configuration:\n            state = self._statechart.state_for(name)\n            self._evaluate_contract_conditions(state, 'invariants', macro_step)",
     "        for name in (configuration if macro_step else []):\n            state = self._statechart.state_for(name)\n            self._evaluate_contract_conditions(state, 'invariants', macro_step)"),
    ('c08-post-before-exit-code', 'C08', 'sismic/interpreter/default.py',
     "            # Remove state from active configuration\n            self._configuration.remove(state.name)\n\n            # Postconditions\n            self._evaluate_contract_conditions(state, 'postconditions', step)",
     "            # Remove state from active configuration\n            self._configuration.remove(state.name)"),
    ('c08-wrong-error-class', 'C08', 'sismic/interpreter/default.py',
     "self._evaluate_contract_conditions(step.transition, 'postconditions', step)\n            self._evaluate_contract_conditions(step.transition, 'invariants', step)\n\n            # Update idle time",
     "self._evaluate_contract_conditions(step.transition, 'invariants', step)\n            self._evaluate_contract_conditions(step.transition, 'postconditions', step)\n\n            # Update idle time"),
    ('c08-old-snapshot-after-entry', 'C08', 'sismic/interpreter/default.py',
     "            # Preconditions\n            self._evaluate_contract_conditions(state, 'preconditions', step)\n\n            # Execute entry action\n            sent_events.extend(self._evaluator.execute_on_entry(state))",
     "            # Execute entry action\n            sent_events.extend(self._evaluator.execute_on_entry(state))\n\n            # Preconditions\n            self._evaluate_contract_conditions(state, 'preconditions', step)"),
    ('c08-all-failures-collected', 'C08', 'sismic/interpreter/default.py',
     "        for condition in unsatisfied_conditions:\n            raise exception_klass(",
     "        for condition in list(unsatisfied_conditions):\n            raise exception_klass("),
    ('c09-ignore-only-invariants', 'C09', 'sismic/interpreter/default.py',
     "        if self._ignore_contract:\n            return\n",
     "        if self._ignore_contract and cond_type == 'invariants':\n            return\n"),
    ('c09-evaluate-and-discard', 'C09', 'sismic/interpreter/default.py',
     "        if self._ignore_contract:\n            return\n\n        exception_klass",
     "        exception_klass"),
    ('c10-no-consumed-meta', 'C10', 'sismic/interpreter/default.py',
     "                self._raise_event(MetaEvent('event consumed', event=event))",
     "                if not isinstance(event, InternalEvent):\n                    self._raise_event(MetaEvent('event consumed', event=event))"),
    ('c10-final-check-only-at-step-ended', 'C10', 'sismic/interpreter/listener.py',
     "        if self._interpreter.final:", "        if self._interpreter.final and event.name == 'step ended':"),
    ('c10-property-clock-reads-clock', 'C10', 'sismic/clock/clock.py',
     "        return self._interpreter.time", "        return self._interpreter.clock.time"),
    ('c10-exited-after-transition', 'C10', 'sismic/interpreter/default.py',
     "            # Notify properties\n            self._raise_event(MetaEvent('state exited', state=state.name))\n",
     "            # Notify properties\n            if not step.transition or step.transition.target != state.name:\n                self._raise_event(MetaEvent('state exited', state=state.name))\n"),
    ('c11-priority-mapping', 'C11', 'sismic/io/datadict.py',
     "                    elif transition.priority == Transition.HIGH_PRIORITY:\n                        priority = 'high'",
     "                    elif transition.priority >= Transition.HIGH_PRIORITY:\n                        priority = 'high'"),
    ('c11-memory-dropped-for-deep', 'C11', 'sismic/io/datadict.py',
     "        data['type'] = 'deep history'\n        if state.memory:\n            data['memory'] = state.memory",
     "        data['type'] = 'deep history'"),
    ('c11-postconditions-of-transitions-lost', 'C11', 'sismic/io/datadict.py',
     "                    for condition in postconditions:\n                        conditions.append({'after': condition})\n                    for condition in invariants:\n                        conditions.append({'always': condition})\n                    transition_data['contract'] = conditions",
     "                    for condition in invariants:\n                        conditions.append({'always': condition})\n                    transition_data['contract'] = conditions"),
    ('c12-no-duplicate-name-check', 'C12', 'sismic/model/statechart.py',
     "        if state.name in self._states.keys():\n            raise StatechartError('State {} already exists!'.format(state))",
     "        if state.name in self._states.keys() and parent is None:\n            raise StatechartError('State {} already exists!'.format(state))"),
    ('c12-schema-error-escapes', 'C12', 'sismic/io/yaml.py',
     "        except schema.SchemaError as e:\n            raise StatechartError('YAML validation failed') from e",
     "        except schema.SchemaMissingKeyError as e:\n            raise StatechartError('YAML validation failed') from e"),
    ('c12-memory-self-allowed', 'C12', 'sismic/model/statechart.py',
     "                if memory == name:\n                    raise StatechartError(",
     "                if memory == name and False:\n                    raise StatechartError("),
    ('c12-target-not-checked', 'C12', 'sismic/model/statechart.py',
     "        if transition.target is not None and transition.target not in self._states:\n            raise StatechartError('Unknown target state for {}'.format(transition))",
     "        if transition.target is not None and transition.target not in self._states and transition.event is None:\n            raise StatechartError('Unknown target state for {}'.format(transition))"),
    ('c15-meta-events-forwarded', 'C15', 'sismic/interpreter/listener.py',
     "        if event.name == 'event sent':\n            self._callable(Event(event.event.name, **event.event.data))",
     "        if event.name == 'event sent':\n            self._callable(Event(event.event.name, **event.event.data))\n        elif event.name in ('na', 'nb'):\n            self._callable(Event(event.name, **event.data))"),
    ('c15-internal-instance-forwarded', 'C15', 'sismic/interpreter/listener.py',
     "            self._callable(Event(event.event.name, **event.event.data))", "            self._callable(event.event)"),
    ('c15-delay-dropped', 'C15', 'sismic/interpreter/listener.py',
     "            self._callable(Event(event.event.name, **event.event.data))",
     "            self._callable(Event(event.event.name, **{k: v for k, v in event.event.data.items() if k != 'delay'}))"),
    ('c15-consumed-external-forwarded', 'C15', 'sismic/interpreter/listener.py',
     "        if event.name == 'event sent':", "        if event.name in ('event sent', 'event consumed'):"),
    ('c16-remove-forgets-incoming-of-descendants', 'C16', 'sismic/model/statechart.py',
     "        # Remove children\n        for child in list(self.children_for(state.name)):\n            self.remove_state(child)",
     "        # Remove children\n        for child in list(self.children_for(state.name)):\n            if self.children_for(child) or True:\n                for t in [t for t in self.transitions if t.source == child]:\n                    self.remove_transition(t)\n                self._states.pop(child); self._children[self._parent.pop(child)].remove(child); self._children.pop(child)"),
    ('c16-rename-keeps-stale-memory', 'C16', 'sismic/model/statechart.py',
     "            if isinstance(other_state, HistoryStateMixin):\n                if other_state.memory == old_name:\n                    other_state.memory = new_name\n\n            # Adapt parent",
     "            # Adapt parent"),
    ('c16-move-keeps-initial', 'C16', 'sismic/model/statechart.py',
     "                if other_state.initial == name:\n                    other_state.initial = None\n\n            # Change memory (HistoryState)\n            if isinstance(other_state, HistoryStateMixin):\n                if other_state.memory == name:\n                    other_state.memory = None",
     "                if other_state.initial == name and False:\n                    other_state.initial = None\n\n            # Change memory (HistoryState)\n            if isinstance(other_state, HistoryStateMixin):\n                if other_state.memory == name:\n                    other_state.memory = None"),
    ('c17-rename-misses-initial', 'C17', 'sismic/model/statechart.py',
     "                if other_state.initial == old_name:\n                    other_state.initial = new_name",
     "                if other_state.initial == old_name and other_state.name < old_name:\n                    other_state.initial = new_name"),
    ('c17-internal-becomes-loop', 'C17', 'sismic/model/statechart.py',
     "            if transition.source == old_name:\n                transition._source = new_name",
     "            if transition.source == old_name:\n                if transition.internal:\n                    transition._target = new_name\n                transition._source = new_name"),
    ('c18-memory-keyed-by-id', 'C18', 'sismic/code/python.py',
     "        return ('state', obj.name)", "        return ('state', id(obj))"),
    ('c18-event-loses-data', 'C18', 'sismic/model/events.py',
     "        self.name, self.data = state", "        self.name, self.data = state[0], {k: v for k, v in state[1].items() if k != 'delay'}"),
    ('c18-idle-time-not-copied', 'C18', 'sismic/interpreter/default.py',
     "    def __repr__(self):\n        return '{}({!r})'.format(self.__class__.__name__, self._statechart)",
     "    def __getstate__(self):\n        d = self.__dict__.copy()\n        d['_memory'] = {}\n        return d\n\n    def __repr__(self):\n        return '{}({!r})'.format(self.__class__.__name__, self._statechart)"),
    ('c19-entered-inspects-whole-trace', 'C19', 'sismic/bdd/steps.py',
     "    test = testing.state_is_entered(context.monitored_trace, name)\n    assert test, 'State {} is not entered'.format(name)",
     "    test = testing.state_is_entered(context.trace, name)\n    assert test, 'State {} is not entered'.format(name)"),
    ('c19-not-fired-always-passes', 'C19', 'sismic/bdd/steps.py',
     "    test = not testing.event_is_fired(context.monitored_trace, name)\n    assert test, 'Event {} is fired'.format(name)",
     "    test = not testing.event_is_fired(context.monitored_trace, name, {'name': None})\n    assert test, 'Event {} is fired'.format(name)"),
    ('c19-variable-equals-loose', 'C19', 'sismic/bdd/steps.py',
     "    assert current_value != expected_value, 'Variable {} equals {}'.format(variable, current_value)",
     "    assert current_value is not expected_value, 'Variable {} equals {}'.format(variable, current_value)"),
    ('c19-monitoring-not-reset', 'C19', 'sismic/bdd/environment.py',
     "        # Stop monitoring\n        context._monitoring = False\n", "        # Stop monitoring\n        pass\n"),
    ('c20-second-execute-dropped', 'C20', 'sismic/runner/runner.py',
     "            steps.append(step)\n\n            if not self._execute_all:\n                break\n\n            step = self.interpreter.execute_once()",
     "            steps.append(step)\n            step = self.interpreter.execute_once()\n\n            if not self._execute_all:\n                break"),
    ('c20-after-run-before-stop-flag', 'C20', 'sismic/runner/runner.py',
     "        self.before_run()\n        self._unpaused.wait()", "        self._unpaused.wait()\n        self.before_run()\n        self.before_run() if self._stop.is_set() else None"),
    ('c20-final-not-checked', 'C20', 'sismic/runner/runner.py',
     "        while not self.interpreter.final and not self._stop.is_set():", "        while not self._stop.is_set():"),
    ('c20-stop-does-not-unpause', 'C20', 'sismic/runner/runner.py',
     "        self._stop.set()\n        self._unpaused.set()\n        self.wait()", "        self._stop.set()\n        self.wait()"),
    ('c20-no-wait-when-paused', 'C20', 'sismic/runner/runner.py',
     "            time.sleep(max(0, self.interval - elapsed))\n            self._unpaused.wait()", "            time.sleep(max(0, self.interval - elapsed))\n            if self.interval > 0:\n                self._unpaused.wait()"),
]


# Behaviour-preserving refactorings (no-false-alarm catalogue, DESIGN.md section 5): every listed check must stay green.
# (name, checks, file, old, new)
BENIGN = [
    ('benign-invariants-in-reverse-state-order', ['C08', 'C09', 'C13'], 'sismic/interpreter/default.py',
     "        for name in configuration:\n            state = self._statechart.state_for(name)\n            self._evaluate_contract_conditions(state, 'invariants', macro_step)",
     "        for name in reversed(configuration):\n            state = self._statechart.state_for(name)\n            self._evaluate_contract_conditions(state, 'invariants', macro_step)"),
    ('benign-post-order-exit', ['C02', 'C03', 'C06', 'C07', 'C08', 'C10'], 'sismic/interpreter/default.py',
     "            for descendant in sorted(\n                    self._statechart.descendants_for(last_before_lca),\n                    key=lambda s: (-self._statechart.depth_for(s), s)):",
     "            for descendant in (lambda f: f(f, last_before_lca)[:-1])(\n                    lambda f, n: [x for c in sorted(self._statechart.children_for(n)) for x in f(f, c)] + [n]):"),
    ('benign-guards-evaluated-in-reverse-declaration-order', ['C01', 'C03', 'C04', 'C05', 'C07'], 'sismic/interpreter/default.py',
     "        for transition in self._statechart.transitions:\n            if transition.source in states:",
     "        for transition in reversed(self._statechart.transitions):\n            if transition.source in states:"),
    ('benign-orthogonal-leaf-stabilised-last', ['C02', 'C03', 'C06', 'C07', 'C10'], 'sismic/interpreter/default.py',
     "            elif isinstance(leaf, OrthogonalState) and self._statechart.children_for(leaf.name):\n                return MicroStep(entered_states=sorted(self._statechart.children_for(leaf.name)))\n",
     ""),
    ('benign-runner-sleeps-in-two-halves', ['C20'], 'sismic/runner/runner.py',
     "            time.sleep(max(0, self.interval - elapsed))",
     "            time.sleep(max(0, self.interval - elapsed) / 2)\n            time.sleep(max(0, self.interval - elapsed) / 2)"),
    ('benign-pause-takes-a-lock-of-its-own', ['C20'], 'sismic/runner/runner.py',
     "        self._unpaused.clear()",
     "        with threading.Lock():\n            with threading.RLock():\n                self._unpaused.clear()"),
    ('benign-clock-folds-elapsed-on-every-read-free-op', ['C14'], 'sismic/clock/clock.py',
     "        if not self._play:\n            self._base = time()\n            self._play = True",
     "        if not self._play:\n            self._time += 0\n            self._base = time()\n            self._play = True"),
]


def run_benign(budget, sel):
    rows = []
    for name, checks, path, old, new in BENIGN:
        if sel and not any(s_ in name or s_ in checks for s_ in sel):
            continue
        tmp = tempfile.mkdtemp(prefix='sismic-mut-')
        try:
            dst = os.path.join(tmp, 'repo')
            shutil.copytree('/repo', dst, ignore=shutil.ignore_patterns('.git', '__pycache__', '*.egg-info'))
            f = os.path.join(dst, path)
            src = open(f).read()
            if src.count(old) != 1:
                print((name, 'PATTERN-NOT-FOUND(%d)' % src.count(old)))
                continue
            open(f, 'w').write(src.replace(old, new))
            p = subprocess.run([PY, '-m', 'pytest', '-q', '-p', 'no:cacheprovider', '-x', '-q', 'tests'], cwd=dst, capture_output=True,
                               text=True, env=dict(os.environ, PYTHONPATH=dst))
            tests = p.stdout.strip().splitlines()[-1] if p.stdout.strip() else ''
            for c in checks:
                env = dict(os.environ, SISMIC_SRC=dst, VERIF_BUDGET_S=budget, PYTHONHASHSEED='0', VERIF_SHRINK_S='4')
                q = subprocess.run([PY, '-m', 'sim', 'check', c, '--tier', 'quick'], cwd=HERE, env=env, capture_output=True, text=True)
                viol = [l for l in q.stdout.splitlines() if l.startswith('violation ')]
                rows.append((name, c, 'rc=%d' % q.returncode, viol[0][:200] if viol else 'green', tests))
                print(rows[-1])
                sys.stdout.flush()
        finally:
            shutil.rmtree(tmp, ignore_errors=True)
    bad = [r for r in rows if r[2] != 'rc=0']
    print('benign refactorings: %d check runs, %d alarms' % (len(rows), len(bad)))
    return rows


def main(argv):
    if '--benign' in argv:
        b = argv[argv.index('--budget') + 1] if '--budget' in argv else '8'
        run_benign(b, [a for a in argv if not a.startswith('--') and a != b])
        return 0
    run_tests = '--tests' in argv
    budget = '8'
    if '--budget' in argv:
        budget = argv[argv.index('--budget') + 1]
    sel = [a for a in argv if not a.startswith('--') and a != budget]
    rows = []
    for name, prop, path, old, new in M:
        if sel and not any(s == prop or s in name for s in sel):
            continue
        tmp = tempfile.mkdtemp(prefix='sismic-mut-')
        try:
            dst = os.path.join(tmp, 'repo')
            shutil.copytree('/repo', dst, ignore=shutil.ignore_patterns('.git', '__pycache__', '*.egg-info'))
            f = os.path.join(dst, path)
            src = open(f).read()
            if src.count(old) != 1:
                rows.append((name, prop, 'PATTERN-NOT-FOUND(%d)' % src.count(old), '', ''))
                continue
            open(f, 'w').write(src.replace(old, new))
            tests = ''
            if run_tests:
                p = subprocess.run([PY, '-m', 'pytest', '-q', '-p', 'no:cacheprovider', '--timeout=900', '-x', '-q', 'tests'],
                                   cwd=dst, capture_output=True, text=True)
                tail = p.stdout.strip().splitlines()[-1] if p.stdout.strip() else ''
                tests = tail
            env = dict(os.environ, SISMIC_SRC=dst, VERIF_BUDGET_S=budget, PYTHONHASHSEED='0', VERIF_SHRINK_S='4')
            p = subprocess.run([PY, '-m', 'sim', 'check', prop, '--tier', 'quick'], cwd=HERE, env=env,
                               capture_output=True, text=True)
            viol = [l for l in p.stdout.splitlines() if l.startswith('violation ')]
            rp = [l for l in p.stdout.splitlines() if l.startswith('VIOLATION')]
            replay_ok = ''
            if rp:
                path_r = rp[0].split('replay=')[1]
                q = subprocess.run([PY, '-m', 'sim', 'replay', path_r], cwd=HERE, env=env, capture_output=True, text=True)
                replay_ok = 'replay-exact' if 'REPRODUCED-EXACTLY' in q.stdout else 'replay-DIFF'
                q2 = subprocess.run([PY, '-m', 'sim', 'replay', path_r], cwd=HERE,
                                    env=dict(os.environ, PYTHONHASHSEED='0'), capture_output=True, text=True)
                replay_ok += '/clean-on-repo' if q2.returncode == 0 else '/FAILS-ON-REPO-TOO'
                os.remove(path_r)
            rows.append((name, prop, 'rc=%d' % p.returncode, (viol[0][:110] if viol else p.stdout[-200:].replace('\n', ' | ')), replay_ok + ' ' + tests))
        finally:
            shutil.rmtree(tmp, ignore_errors=True)
        print(rows[-1])
        sys.stdout.flush()
    caught = sum(1 for r in rows if r[2] == 'rc=1')
    print('caught %d / %d' % (caught, len(rows)))
    # evidence files were overwritten by mutant runs: remind
    print('NOTE: evidence/*.json of the touched properties were rewritten by mutant runs; re-run the checks on /repo.')
    return 0


if __name__ == '__main__':
    sys.exit(main(sys.argv[1:]))

"""Sensitivity self-test (DESIGN.md section 5): applies each catalogued source mutant to a scratch copy of
/repo, optionally runs the pinned test-suite on it, runs the property's quick check against it and
expects exit 1 + a replay that reproduces.  Scratch copies live under mktemp and are removed.

usage: python tools_mutants.py [--tests] [--budget S] [name-or-property ...]
"""
import json
import os
import shutil
import subprocess
import sys
import tempfile

HERE = os.path.dirname(os.path.abspath(__file__))
PY = '/venv/bin/python'

# (name, property, file, old, new)
M = [
    ('c01-no-priority-break', 'C01', 'sismic/interpreter/default.py',
     "                            ignored_states.add(source)\n                            break\n",
     "                            ignored_states.add(source)\n"),
    ('c01-eventless-sees-event', 'C01', 'sismic/interpreter/default.py',
     "exposed_event = event if has_event else None", "exposed_event = event"),
    ('c01-outer-first', 'C01', 'sismic/interpreter/default.py',
     "transitions = self._select_transitions(event, states=self._configuration)",
     "transitions = self._select_transitions(event, states=self._configuration, inner_first=False)"),
    ('c01-consume-on-eventless', 'C01', 'sismic/interpreter/default.py',
     "event = None if transitions[0].event is None else event", "event = event"),
    ('c02-no-orthogonal-completion', 'C02', 'sismic/interpreter/default.py',
     "                if missing:\n                    return MicroStep(entered_states=sorted(missing))",
     "                if missing and len(missing) > 1:\n                    return MicroStep(entered_states=sorted(missing))"),
    ('c02-final-only-basic-root', 'C02', 'sismic/interpreter/default.py',
     "return self._initialized and len(self._configuration) == 0",
     "return self._initialized and len(self._configuration) <= 0 and not self._sent_events"),
    ('c03-action-before-exit-history', 'C03', 'sismic/interpreter/default.py',
     "entered_states.insert(0, state)", "entered_states.insert(0 if len(entered_states) < 3 else 1, state)"),
    ('c03-exit-order-decl', 'C03', 'sismic/interpreter/default.py',
     "key=lambda s: (-self._statechart.depth_for(s), s)):\n                # Only leave",
     "key=lambda s: (-self._statechart.depth_for(s))):\n                # Only leave"),
    ('c03-sent-events-dropped-from-trace', 'C03', 'sismic/interpreter/default.py',
     "sent_events.extend(self._evaluator.execute_on_exit(state))",
     "sent_events.extend(self._evaluator.execute_on_exit(state)[:1])"),
    ('c04-no-conflict-check', 'C04', 'sismic/interpreter/default.py',
     "if (transition.target and (transition.target not in [", "if (False and transition.target and (transition.target not in ["),
    ('c04-same-source-allowed', 'C04', 'sismic/interpreter/default.py',
     "if t1.source == t2.source or not isinstance(lca_state, OrthogonalState):",
     "if not isinstance(lca_state, OrthogonalState):"),
    ('c05-bisect-left', 'C05', 'sismic/interpreter/default.py', "bisect.bisect_right(", "bisect.bisect_left("),
    ('c05-strict-due', 'C05', 'sismic/interpreter/default.py', "if time <= self.time:", "if time < self.time:"),
    ('c05-external-first', 'C05', 'sismic/interpreter/default.py',
     "(self._internal_queue, self._external_queue)):\n            if len(queue) > 0:",
     "(self._external_queue, self._internal_queue)):\n            if len(queue) > 0:"),
    ('c05-delay-from-clock', 'C05', 'sismic/interpreter/default.py',
     "time = self.time + getattr(event, 'delay', 0)", "time = self.clock.time + getattr(event, 'delay', 0)"),
    ('c06-shallow-deep-swapped', 'C06', 'sismic/interpreter/default.py',
     "if isinstance(child, DeepHistoryState):\n                        # This MUST",
     "if isinstance(child, ShallowHistoryState) and False or isinstance(child, DeepHistoryState) and len(self._memory) % 5 == 4:\n                        # This MUST"),
    ('c06-memory-not-overwritten', 'C06', 'sismic/interpreter/default.py',
     "                        assert len(active) == 1\n                        self._memory[child.name] = list(active)",
     "                        assert len(active) == 1\n                        self._memory.setdefault(child.name, list(active))"),
    ('c06-deep-records-children-only', 'C06', 'sismic/interpreter/default.py',
     "active = active_configuration.intersection(\n                            self._statechart.descendants_for(state.name))",
     "active = active_configuration.intersection(\n                            self._statechart.children_for(state.name))"),
    ('c03-assert-fires-midway', 'C03', 'sismic/interpreter/default.py',
     "active = active_configuration.intersection(\n                            self._statechart.descendants_for(state.name))",
     "active = self._configuration.intersection(\n                            self._statechart.descendants_for(state.name))"),
    ('c13-macrostep-time-reread', 'C13', 'sismic/interpreter/default.py',
     "macro_step = MacroStep(time=self.time, steps=executed_steps)", "macro_step = MacroStep(time=self.clock.time, steps=executed_steps)"),
    ('c13-after-strict', 'C13', 'sismic/code/python.py',
     "                lambda seconds: self._interpreter.time - seconds\n                >= self._interpreter._entry_time[transition.source]",
     "                lambda seconds: self._interpreter.time - seconds\n                > self._interpreter._entry_time[transition.source]"),
    ('c13-idle-not-reset-by-internal', 'C13', 'sismic/interpreter/default.py',
     "            self._idle_time[step.transition.source] = self.time",
     "            if step.transition.target is not None:\n                self._idle_time[step.transition.source] = self.time"),
    ('c13-invariant-idle-uses-entry', 'C13', 'sismic/code/python.py',
     "                >= self._interpreter._idle_time[state_name]\n            ),\n            'received': lambda name: name == getattr(\n                event,\n                'name',\n                None),\n            'sent': lambda name: name in [\n                e.name for e in self._interpreter._sent_events],\n            'event': event,\n        }\n\n        return filter(\n            lambda c: not self._evaluate_code(c, additional_context=additional_context),\n            getattr(obj, 'invariants', [])",
     "                >= self._interpreter._entry_time[state_name]\n            ),\n            'received': lambda name: name == getattr(\n                event,\n                'name',\n                None),\n            'sent': lambda name: name in [\n                e.name for e in self._interpreter._sent_events],\n            'event': event,\n        }\n\n        return filter(\n            lambda c: not self._evaluate_code(c, additional_context=additional_context),\n            getattr(obj, 'invariants', [])"),
    ('c13-time-variable-live', 'C13', 'sismic/code/python.py',
     "            'time': self._interpreter.time,\n            'send'", "            'time': self._interpreter.clock.time,\n            'send'"),
    ('c14-no-fold-on-stop', 'C14', 'sismic/clock/clock.py',
     "            self._time += self._elapsed\n            self._play = False", "            self._play = False"),
    ('c14-guard-stored', 'C14', 'sismic/clock/clock.py', "if new_time < current_time:", "if new_time < self._time:"),
    ('c14-speed-no-rebase', 'C14', 'sismic/clock/clock.py',
     "        self._time += self._elapsed\n        self._base = time()\n        self._speed = speed", "        self._time += self._elapsed\n        self._speed = speed"),
]


def main(argv):
    run_tests = '--tests' in argv
    budget = '8'
    if '--budget' in argv:
        budget = argv[argv.index('--budget') + 1]
    sel = [a for a in argv if not a.startswith('--') and a != budget]
    rows = []
    for name, prop, path, old, new in M:
        if sel and not any(s == prop or s in name for s in sel):
            continue
        tmp = tempfile.mkdtemp(prefix='sismic-mut-')
        try:
            dst = os.path.join(tmp, 'repo')
            shutil.copytree('/repo', dst, ignore=shutil.ignore_patterns('.git', '__pycache__', '*.egg-info'))
            f = os.path.join(dst, path)
            src = open(f).read()
            if src.count(old) != 1:
                rows.append((name, prop, 'PATTERN-NOT-FOUND(%d)' % src.count(old), '', ''))
                continue
            open(f, 'w').write(src.replace(old, new))
            tests = ''
            if run_tests:
                p = subprocess.run([PY, '-m', 'pytest', '-q', '-p', 'no:cacheprovider', '--timeout=900', '-x', '-q', 'tests'],
                                   cwd=dst, capture_output=True, text=True)
                tail = p.stdout.strip().splitlines()[-1] if p.stdout.strip() else ''
                tests = tail
            env = dict(os.environ, SISMIC_SRC=dst, VERIF_BUDGET_S=budget, PYTHONHASHSEED='0', VERIF_SHRINK_S='4')
            p = subprocess.run([PY, '-m', 'sim', 'check', prop, '--tier', 'quick'], cwd=HERE, env=env,
                               capture_output=True, text=True)
            viol = [l for l in p.stdout.splitlines() if l.startswith('violation ')]
            rp = [l for l in p.stdout.splitlines() if l.startswith('VIOLATION')]
            replay_ok = ''
            if rp:
                path_r = rp[0].split('replay=')[1]
                q = subprocess.run([PY, '-m', 'sim', 'replay', path_r], cwd=HERE, env=env, capture_output=True, text=True)
                replay_ok = 'replay-exact' if 'REPRODUCED-EXACTLY' in q.stdout else 'replay-DIFF'
                q2 = subprocess.run([PY, '-m', 'sim', 'replay', path_r], cwd=HERE,
                                    env=dict(os.environ, PYTHONHASHSEED='0'), capture_output=True, text=True)
                replay_ok += '/clean-on-repo' if q2.returncode == 0 else '/FAILS-ON-REPO-TOO'
                os.remove(path_r)
            rows.append((name, prop, 'rc=%d' % p.returncode, (viol[0][:110] if viol else p.stdout[-200:].replace('\n', ' | ')), replay_ok + ' ' + tests))
        finally:
            shutil.rmtree(tmp, ignore_errors=True)
        print(rows[-1])
        sys.stdout.flush()
    caught = sum(1 for r in rows if r[2] == 'rc=1')
    print('caught %d / %d' % (caught, len(rows)))
    # evidence files were overwritten by mutant runs: remind
    print('NOTE: evidence/*.json of the touched properties were rewritten by mutant runs; re-run the checks on /repo.')
    return 0


if __name__ == '__main__':
    sys.exit(main(sys.argv[1:]))

#!/bin/sh
# determinism self-test of every check: same seeds twice in-process + fresh processes under PYTHONHASHSEED 0 / 12345
cd "$(dirname "$0")"
for c in c01 c02 c03 c04 c05 c06 c07 c08 c09 c10 c11 c12 c13 c14 c15 c16 c17 c18 c19 c20; do
  n=300; case $c in c12) n=30;; c08|c10|c18|c19) n=100;; esac
  PYTHONHASHSEED=0 timeout 3000 /venv/bin/python -m sim selftest-determinism $c $n || echo "NONDETERMINISTIC $c"
done

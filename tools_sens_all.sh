#!/bin/sh
# Full sensitivity rerun: every seeded change against its own property's quick check, four streams side by side (each stream owns
# five properties, so no two streams ever run the same check), 4 workers per check and a 20 s budget; then the catalogue mutants
# and the benign catalogue.  Output: SENSITIVITY_RESULTS.txt.  Changes not flagged in the parallel pass are re-run alone with all
# 16 workers.
cd "$(dirname "$0")"
OUT=SENSITIVITY_RESULTS.txt
T=$(mktemp -d)
for k in 0 1 2 3; do
  lo=$((k * 5 + 1)); hi=$((k * 5 + 5))
  ids=""
  for n in $(seq $lo $hi); do p=$(printf "C%02d" $n); ids="$ids $(ls seeded | grep "^$p-" | tr '\n' ' ')"; done
  VERIF_WORKERS=4 /venv/bin/python tools_seeded.py run $ids --budget 20 > $T/s$k.txt 2>&1 &
done
wait
cat $T/s0.txt $T/s1.txt $T/s2.txt $T/s3.txt | grep -v "^NOTE" > $T/all.txt
missed=$(grep " rc=0 " $T/all.txt | cut -d' ' -f1 | tr '\n' ' ')
echo "# second pass (alone, 16 workers, 30 s) for: $missed" > $T/second.txt
[ -n "$missed" ] && /venv/bin/python tools_seeded.py run $missed --budget 30 2>&1 | grep -v "^NOTE" >> $T/second.txt
{
  echo "# Seeded changes, all rounds, own quick check: parallel pass (4 streams, 4 workers each, 20 s budget), $(date +%F)"
  grep -v " rc=0 " $T/all.txt
  cat $T/second.txt
  echo "# Catalogue mutants (tools_mutants.py --budget 10)"
  /venv/bin/python tools_mutants.py --budget 10 2>&1 | tail -75
  echo "# Benign catalogue (tools_mutants.py --benign --budget 10)"
  /venv/bin/python tools_mutants.py --benign --budget 10 2>&1 | tail -30
} > $OUT
rm -rf $T
grep -c "" $OUT

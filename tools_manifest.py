"""Regenerates MANIFEST.json from the check modules that exist (python tools_manifest.py)."""
import json, os, sys, importlib
sys.path.insert(0, os.path.dirname(os.path.abspath(__file__)))
os.environ.setdefault('PYTHONHASHSEED', '0')
PINNED = "cd /repo && /venv/bin/python -m pytest -ra -q -p no:cacheprovider --timeout=900 --continue-on-collection-errors"
props = [json.loads(l) for l in open('properties.jsonl')]
checks, na = [], []
for p in props:
    pid = p['id']
    path = os.path.join('sim', 'checks', pid.lower() + '.py')
    if not os.path.exists(path):
        na.append({'property_id': pid, 'reason': 'no check registered in this commit yet (planned, see DESIGN.md section 4 and 9); not a claim that the technique cannot apply'})
        continue
    m = importlib.import_module('sim.checks.' + pid.lower())
    checks.append({
        'property_id': pid,
        'quick_cmd': 'timeout 600 /venv/bin/python -m sim check %s --tier quick' % pid,
        'thorough_cmd': 'timeout 3000 /venv/bin/python -m sim check %s --tier thorough' % pid,
        'evidence_file': '/verif/evidence/%s.json' % pid,
        'replay_cmd_template': '/venv/bin/python -m sim replay {path}',
        'engine': 'sim',
        'level_claimed': {'category': m.LEVEL, 'text': m.LEVEL_TEXT, 'design_ref': 'DESIGN.md section 4, ' + pid},
        'level_note': m.LEVEL_NOTE,
        'technique': m.TECHNIQUE,
    })
man = {
    'version': 1,
    'setup_cmd': '/venv/bin/python -m sim setup',
    'hooks': {'guard': 'SISMIC_VERIF', 'enable': 'no source hook is needed: every seam exists already (clock= parameter, module globals sismic.clock.clock.time and sismic.runner.runner.threading/time, initial_context probes, sys.monitoring); checks import sismic from /repo working tree (SISMIC_SRC overrides)',
              'baseline_off_cmd': PINNED, 'source_commits': [], 'add_only': True},
    'engines': [{'name': 'sim', 'path': '/verif/sim', 'serves_properties': [c['property_id'] for c in checks],
                 'kind_free_text': 'deterministic simulation with fault injection: seeded choice-sequence engine (one integer decides chart, history, guard outcomes, clock moves, fault positions, thread schedule), reference-model and twin-run oracles, delta-debugging shrinker, replay files'}],
    'checks': checks,
    'not_applicable': na,
    'notes': 'Exit codes: 0 held, 1 VIOLATION (replay file written), 2 HARNESS-ERROR. Known findings: /verif/known_findings.txt. VERIF_SEED selects the batch; VERIF_BUDGET_S / VERIF_WORKERS override wall budget and worker count.',
}
json.dump(man, open('MANIFEST.json', 'w'), indent=1)
try:
    import jsonschema
    jsonschema.validate(man, json.load(open('/root/.vp/MANIFEST.schema.json')))
except ImportError:
    print('(jsonschema not importable here: run python3-vt tools_validate.py)')
print('MANIFEST ok: %d checks, %d not claimed' % (len(checks), len(na)))

import sys
from sim.cli import main
sys.exit(main(sys.argv[1:]))

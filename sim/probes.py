"""Probe object placed in the interpreter's initial_context as ``P`` (DESIGN.md 3.4).

Generated code only calls P; P appends to an ordered log and returns the truth values the
simulator chose beforehand.  Picklable / deep-copyable (C18).
"""
from sismic.clock import Clock


def ev(event):
    """printable identity of an event as seen by code"""
    if event is None:
        return None
    uid = event.data.get('uid') if hasattr(event, 'data') else None
    if type(event).__name__ == 'DelayedEvent':
        return (event.name, uid, event.delay)       # the deprecated class: its delay is an attribute the code may read
    if hasattr(event, 'data') and 'items' in event.data:
        return (event.name, uid, len(event.data['items']))      # a mutable payload: what it holds when the code looks at it
    return (event.name, uid)


class Box:
    """a plain mutable user object kept in the context (hashable by identity, not immutable)"""

    def __init__(self, n=0):
        self.n = n

    def __repr__(self):
        return 'Box(n=%d)' % self.n


class Probe:
    def __init__(self, tag=''):
        self.tag = tag
        self.log = []
        self.truth = {}        # transition index -> bool, chosen before each step
        self.default = True
        self.uid = 1000
        self.cond_n = 0        # number of contract evaluations so far
        self.fail_at = None    # occurrence number (1-based) of the contract evaluation made false
        self.cond_truth = None  # optional dict cond id -> bool
        self.on_probe = None   # optional hook(kind) called at every probe (clock moves inside steps)

    def newbox(self, n=0):
        return Box(n)

    def _hook(self, kind):
        if self.on_probe is not None:
            self.on_probe(kind)

    def entry(self, name):
        self.log.append(('entry', name))
        self._hook('entry')

    def exit(self, name):
        self.log.append(('exit', name))
        self._hook('exit')

    def act(self, i, event):
        self.log.append(('act', i, ev(event)))
        self._hook('act')

    def guard(self, i, event):
        self.log.append(('guard', i, ev(event)))
        self._hook('guard')
        return self.truth.get(i, self.default)

    def g(self, i):
        """event-free guard form: its text can also be used as a statement (entry / exit code)"""
        self.log.append(('g', i))
        return self.truth.get(i, self.default)

    def tguard(self, i, event, after, idle, time):
        self.log.append(('tguard', i, ev(event), after, idle, time))
        self._hook('guard')
        return self.truth.get(i, self.default)

    def send(self, send, name, delay):
        self.uid += 1
        self.log.append(('send', self.uid, name, delay))
        if delay is None:
            send(name, uid=self.uid, tag='t%d' % self.uid)
        else:
            send(name, uid=self.uid, tag='t%d' % self.uid, delay=delay)

    def sendw(self, send, name, delay, items, handle=None):
        """an event that carries mutable objects of the context (the list w itself, not a copy; the box, an object without
        value equality)"""
        self.uid += 1
        self.log.append(('send', self.uid, name, delay))
        kw = {} if handle is None else {'handle': handle}
        if delay is None:
            send(name, uid=self.uid, tag='t%d' % self.uid, items=items, **kw)
        else:
            send(name, uid=self.uid, tag='t%d' % self.uid, delay=delay, items=items, **kw)

    def anon(self, send, name, delay):
        """an event without any distinguishing parameter: two of them compare equal"""
        self.log.append(('anon', None, name, delay))
        if delay is None:
            send(name)
        else:
            send(name, delay=delay)

    def notify(self, notify, name):
        self.uid += 1
        self.log.append(('notify', self.uid, name))
        notify(name, uid=self.uid)

    def cond(self, j, v, old, event, *flags):
        self.cond_n += 1
        if old is not None:
            # __old__ is a read-only mapping of the variables as they were: a variable that did not exist then is absent,
            # whichever way one asks
            absent = (old.get('nosuch_variable', 7) == 7 and 'nosuch_variable' not in old
                      and getattr(old, 'nosuch_variable', 7) == 7 and 'v' in old and old['v'] == old.v)
        e = ('cond', j, v, None if old is None else (old.v, len(old.w), len(old.u[0]), old.box.n, absent), ev(event), self.cond_n)
        self.log.append(e + (flags,) if flags else e)
        self._hook('cond')
        if self.fail_at is not None and self.cond_n == self.fail_at:
            return False
        if self.cond_truth is not None:
            return self.cond_truth.get(j, True)
        return True

    def tcond(self, j, after, idle, time):
        self.log.append(('tcond', j, after, idle, time))
        self._hook('cond')
        return True

    def ttinv(self, i, idle, time):
        self.log.append(('ttinv', i, idle, time))
        self._hook('cond')
        return True

    def ttpost(self, i, after, time):
        self.log.append(('ttpost', i, after, time))
        self._hook('cond')
        return True

    def tpost(self, j, after, time):
        self.log.append(('tpost', j, after, time))
        self._hook('cond')
        return True

    def obs(self, tag, time):
        self.log.append(('obs', tag, time))
        return True


class SimClock(Clock):
    """Interpreter clock owned by the simulator: moves only when told to."""

    def __init__(self, start=0.0):
        self._t = start
        self.reads = 0

    @property
    def time(self):
        self.reads += 1
        return self._t

    def advance(self, d):
        self._t += d        # d < 0: a clock is free to go backwards; the step time is whatever it shows when a step begins

    def peek_next(self):
        return self._t


class SkewClock(Clock):
    """Returns a different, larger value at every read (C13): a second read of the clock anywhere
    inside a step becomes visible."""

    def __init__(self, start=0.0, tick=1 / 64):
        self._t = start
        self.tick = tick
        self.reads = 0
        self.values = []

    @property
    def time(self):
        self.reads += 1
        self._t += self.tick
        self.values.append(self._t)
        return self._t

    def advance(self, d):
        self._t += d

    def peek_next(self):
        return self._t + self.tick


class IntClock(Clock):
    """Counts integer ticks from a base no double can hold exactly (a nanosecond counter): the step time must be the
    sampled value itself, not its nearest float (C13)."""

    def __init__(self, base=2 ** 62 + 3):
        self._t = base
        self.reads = 0

    @property
    def time(self):
        self.reads += 1
        return self._t

    def advance(self, d):
        assert d >= 0 and int(d) == d
        self._t += int(d)

    def peek_next(self):
        return self._t

"""python -m sim check <ID> --tier quick|thorough | replay <path> | selftest-determinism [...]"""
import os
import sys


def _reexec_with_hashseed():
    # one fixed string-hash seed for every harness process, so that set/dict iteration inside
    # sismic is the same in the batch and in a replay (C07 varies it on purpose, in sub-processes)
    if os.environ.get('PYTHONHASHSEED') is None:
        env = dict(os.environ)
        env['PYTHONHASHSEED'] = '0'
        os.execve(sys.executable, [sys.executable, '-m', 'sim'] + sys.argv[1:], env)


def main(argv):
    _reexec_with_hashseed()
    import warnings
    warnings.simplefilter('ignore')
    from sim import engine
    if not argv:
        print(__doc__)
        return 2
    cmd = argv[0]
    if cmd == 'check':
        name = argv[1]
        tier = os.environ.get('VERIF_TIER', 'quick')
        max_runs = None
        if '--tier' in argv:
            tier = argv[argv.index('--tier') + 1]
        if '--runs' in argv:
            max_runs = int(argv[argv.index('--runs') + 1])
        return engine.cmd_check(name, tier, max_runs=max_runs)
    if cmd == 'replay':
        return engine.cmd_replay(argv[1])
    if cmd == 'selftest-determinism':
        from sim import selftest
        return selftest.determinism(argv[1:])
    if cmd == 'setup':
        from sim import selftest
        return selftest.setup()
    print(__doc__)
    return 2

"""setup verification and determinism self-test (DESIGN.md section 5)."""
import hashlib
import json
import os
import subprocess
import sys


def setup():
    from sim import engine
    import sismic
    assert os.path.abspath(sismic.__file__).startswith(os.path.abspath(engine.REPO)), sismic.__file__
    import ruamel.yaml, schema, behave  # noqa
    assert hasattr(sys, 'monitoring'), 'sys.monitoring (python >= 3.12) is needed by the thread simulator'
    os.makedirs(os.path.join(engine.VERIF, 'evidence'), exist_ok=True)
    os.makedirs(os.path.join(engine.VERIF, 'replays'), exist_ok=True)
    print('setup ok: sismic from %s, python %s' % (sismic.__file__, sys.version.split()[0]))
    return 0


def digest_runs(check_name, tier, n, batch_seed=1):
    """digest of (violation, stats, nontrivial, used choices) for runs 0..n-1, in this process"""
    from sim import engine
    check = engine.load_check(check_name)
    h = hashlib.sha256()
    per = []
    for i in range(n):
        seed = engine.seed_for(check.ID, batch_seed, i)
        res, used = engine.run_one(check, tier, seed=seed)
        d = hashlib.sha256(repr((res.violation and (res.violation['cls'], res.violation['msg']),
                                 sorted(res.stats.items()), sorted(res.nontrivial), res.abandoned,
                                 sorted(used.items()), res.extra)).encode()).hexdigest()[:12]
        per.append(d)
        h.update(d.encode())
    return h.hexdigest()[:16], per


def determinism(argv):
    """selftest-determinism <check> [n]: same seeds twice in-process, then in fresh interpreters
    under PYTHONHASHSEED 0 and 12345; all digests must agree."""
    name = argv[0]
    n = int(argv[1]) if len(argv) > 1 else 200
    tier = argv[2] if len(argv) > 2 else 'quick'
    if os.environ.get('SIM_DIGEST_CHILD'):
        d, per = digest_runs(name, tier, n)
        print('DIGEST', d, ' '.join(per))
        return 0
    d1, per1 = digest_runs(name, tier, n)
    d2, per2 = digest_runs(name, tier, n)
    ok = d1 == d2
    out = {'in_process_twice': d1 == d2}
    for hs in ('0', '12345'):
        env = dict(os.environ)
        env['PYTHONHASHSEED'] = hs
        env['SIM_DIGEST_CHILD'] = '1'
        p = subprocess.run([sys.executable, '-m', 'sim', 'selftest-determinism', name, str(n), tier],
                           env=env, capture_output=True, text=True, timeout=3600)
        line = [l for l in p.stdout.splitlines() if l.startswith('DIGEST')]
        if not line:
            print(p.stdout[-2000:], p.stderr[-2000:])
            return 2
        parts = line[0].split()
        same = parts[1] == d1
        out['fresh_process_hashseed_' + hs] = same
        if not same:
            diff = [i for i, (a, b) in enumerate(zip(per1, parts[2:])) if a != b]
            out['first_divergent_runs_hashseed_' + hs] = diff[:10]
        ok = ok and same
    print(json.dumps({'check': name, 'runs': n, 'digest': d1, **out}))
    return 0 if ok else 1

"""Deterministic thread simulator for AsyncRunner (DESIGN.md 1.4).

Real OS threads, exactly one of which holds the baton.  The code under test sees fake ``threading``
(Event, Thread) and ``time`` (time, sleep) namespaces; every operation on a fake primitive is a yield
point, and sys.monitoring LINE events on selected code objects are further pre-emption points.  Every
decision (who runs next, whether a line pre-empts, how much virtual CPU time a step costs, injected
faults) is a choice() on the run's Choices streams, so one record = one exactly repeatable schedule.
"""
import gc
import sys
import threading as real_threading
import types

TOOL = 3


class SimAbort(BaseException):
    """unwinds a parked simulated thread when the run is over"""


class SimThread:
    def __init__(self, sched, fn, name):
        self.sched = sched
        self.fn = fn
        self.name = name
        self.state = 'new'        # new | ready | running | blocked | sleeping | done
        self.wake_cond = None
        self.wake_at = 0.0
        self.deadline = None      # blocked with a timeout: runnable again at this virtual time whatever the condition says
        self.why = ''
        self.stalled = 0
        self.last_run = -1
        self.baton = real_threading.Semaphore(0)
        self.real = real_threading.Thread(target=self._boot, daemon=True, name='sim-' + name)
        self.started = False
        self.exc = None

    def start_real(self):
        self.state = 'ready'
        self.started = True
        self.real.start()

    def _boot(self):
        self.baton.acquire()
        s = self.sched
        try:
            if s.aborting:
                return
            self.fn()
        except SimAbort:
            self.state = 'done'
            return
        except BaseException as e:      # outcome of the run, never a harness error
            self.exc = e
            s.errors.append((self.name, type(e).__name__, str(e)[:120]))
            s.log('thread-died', self.name, type(e).__name__)
            self.state = 'done'
            if not s.aborting:          # a dead client would leave the runner spinning: the run is over
                s.aborting = True
                s.main_baton.release()
            return
        self.state = 'done'
        if not s.aborting:
            try:
                s.switch(self)
            except SimAbort:
                pass


class Sched:
    def __init__(self, ch, fine, density=4, cap=30000, faults=True):
        self.sd = ch.s('sched')
        self.pp = ch.s('preempt')
        self.tm = ch.s('time')
        self.ft = ch.s('faults')
        self.fine = fine
        self.density = density
        self.cap = cap
        self.faults = faults
        self.now = 0.0
        self.skew = 0.0
        self.threads = []
        self.current = None
        self.seq = 0
        self.steps = 0
        self.switches = []          # (thread name, yield-point kind) of every context switch
        self.events = []            # (seq, thread, kind, payload)
        self.errors = []
        self.aborting = False
        self.active = False
        self.deadlock = None
        self.capped = False
        self.stats = {}
        self.main_baton = real_threading.Semaphore(0)
        self.queue_codes = set()
        self.atomic_codes = set()   # code objects in which LINE pre-emption is switched off (K1 classifier)

    # ---- history
    def log(self, kind, *payload):
        self.seq += 1
        cur = self.current.name if self.current is not None else 'main'
        self.events.append((self.seq, cur, kind) + payload)
        return self.seq

    def count(self, k, n=1):
        self.stats[k] = self.stats.get(k, 0) + n

    # ---- threads
    def spawn(self, fn, name):
        t = SimThread(self, fn, name)
        self.threads.append(t)
        return t

    def runnable(self):
        out = []
        for t in self.threads:
            if t.state == 'ready':
                out.append(t)
            elif t.state == 'blocked' and t.wake_cond is not None and t.wake_cond():
                out.append(t)
            elif t.state == 'blocked' and t.deadline is not None and t.deadline <= self.now:
                out.append(t)
            elif t.state == 'sleeping' and t.wake_at <= self.now:
                out.append(t)
        return out

    def pick_next(self):
        while True:
            r = self.runnable()
            if r:
                if len(r) > 1:
                    # injected stall: a runnable thread is passed over for a drawn number of decisions
                    if self.faults and self.ft.choice(16) == 1:
                        v = r[self.ft.choice(len(r))]
                        v.stalled = 1 + self.ft.choice(6)
                        self.count('fault_thread_stall')
                    free = [t for t in r if t.stalled == 0]
                    for t in r:
                        if t.stalled:
                            t.stalled -= 1
                    if free:
                        r = free
                # the thread that just ran comes first: choice 0 = no context switch
                cur = self.current
                if cur in r:
                    r.remove(cur)
                    r.insert(0, cur)
                if self.sd.exhausted():
                    # beyond the end of a (shrunk) record: fair round-robin instead of "always the first",
                    # so that a truncated schedule still terminates
                    nxt = min(r, key=lambda t: t.last_run)
                else:
                    nxt = r[self.sd.choice(len(r))]
                nxt.last_run = self.steps
                return nxt
            sleepers = [t.wake_at for t in self.threads if t.state == 'sleeping']
            sleepers += [t.deadline for t in self.threads if t.state == 'blocked' and t.deadline is not None]
            if sleepers:
                self.now = min(sleepers)
                continue
            return None

    def switch(self, me):
        """`me` has updated its own state; choose the next thread and hand the baton over."""
        self.steps += 1
        self.now += 1 / 1024 if self.tm.exhausted() else (0.0, 0.0, 1 / 1024, 1 / 64)[self.tm.choice(4)]
        if self.steps > self.cap and not self.aborting:
            self.capped = True
            self._abort(me)
            return
        nxt = self.pick_next()
        if nxt is None:
            alive = [t for t in self.threads if t.state not in ('done', 'new')]     # a thread that was never started blocks nobody
            if alive:
                self.deadlock = [(t.name, t.state, t.why) for t in alive]
                self._abort(me)
                return
            self.current = None
            self.main_baton.release()
            return
        if nxt is me:
            me.state = 'running'
            me.wake_cond = None
            return
        self.switches.append((nxt.name, me.why if me is not None else 'start'))
        nxt.state = 'running'
        nxt.wake_cond = None
        self.current = nxt
        nxt.baton.release()
        if me is not None and me.state != 'done':
            me.baton.acquire()
            if self.aborting:
                raise SimAbort()

    def _abort(self, me):
        self.aborting = True
        self.main_baton.release()
        if me is not None and me.state != 'done':
            me.baton.acquire()
            raise SimAbort()

    def _mine(self):
        me = self.current
        me = me if (self.active and me is not None and real_threading.current_thread() is me.real) else None
        if me is not None and self.aborting:
            # the run is being torn down: code that unwinds (a `with lock:` block releasing its lock) must not wait for anybody
            raise SimAbort()
        return me

    def yield_point(self, why):
        me = self._mine()
        if me is None:
            return
        me.state = 'ready'
        me.why = why
        self.switch(me)

    def block(self, cond, why, timeout=None):
        me = self._mine()
        if me is None:
            return
        me.state = 'blocked'
        me.wake_cond = cond
        me.deadline = None if timeout is None else self.now + max(0.0, timeout)
        me.why = why
        self.switch(me)
        me.deadline = None

    def sleep(self, d):
        if d < 0:
            raise ValueError('sleep length must be non-negative')       # as time.sleep does
        me = self._mine()
        if me is None:
            return
        over = 0.0
        if self.faults and self.ft.choice(8) == 1:
            over = (1 / 64, 1 / 4, 2.0)[self.ft.choice(3)]
            self.count('fault_sleep_overshoot')
        me.state = 'sleeping'
        me.wake_at = self.now + max(0.0, d) + over
        me.why = 'sleep'
        self.switch(me)

    def wall(self):
        """time.time() as seen by the runner: virtual time plus a skew that jumps (fault)"""
        if self.faults and self.ft.choice(12) == 1:
            self.skew += (5.0, -5.0, 0.5, -0.5)[self.ft.choice(4)]
            self.count('fault_wall_clock_jump')
        return 1000.0 + self.now + self.skew

    # ---- running
    def run(self):
        """Called by the harness (outside any simulated thread) after the first thread(s) were started."""
        self.active = True
        gc_was = gc.isenabled()
        gc.disable()
        try:
            self.switch(None)
            self.main_baton.acquire()
            if self.aborting:
                for t in self.threads:
                    if t.state != 'done' and t.started and t.real.is_alive():
                        t.baton.release()
            for t in self.threads:
                if t.started:
                    t.real.join(10)
        finally:
            self.active = False
            if gc_was:
                gc.enable()
        leaked = [t.name for t in self.threads if t.started and t.real.is_alive()]
        if leaked:
            raise RuntimeError('simulated OS threads leaked: %s' % leaked)


def make_fakes(sched):
    class FEvent:
        def __init__(self):
            self.flag = False

        def is_set(self):
            sched.yield_point('Event.is_set')
            return self.flag

        def set(self):
            sched.yield_point('Event.set')
            self.flag = True

        def clear(self):
            sched.yield_point('Event.clear')
            self.flag = False

        def wait(self, timeout=None):
            sched.yield_point('Event.wait')
            if not self.flag:
                sched.log('parked')
                sched.block(lambda: self.flag, 'Event.wait', timeout)
                sched.log('unparked')
            return self.flag        # False: the timeout ran out, as threading.Event.wait reports it

    class FThread:
        def __init__(self, target=None, **kw):
            self.st = sched.spawn(target, 'runner')

        def start(self):
            sched.yield_point('Thread.start')
            if self.st.started:
                raise RuntimeError('threads can only be started once')          # as threading.Thread does
            self.st.start_real()

        def is_alive(self):
            sched.yield_point('Thread.is_alive')
            return self.st.started and self.st.state != 'done'

        def join(self, timeout=None):
            sched.yield_point('Thread.join')
            if not self.st.started:
                raise RuntimeError('cannot join thread before it is started')     # as threading.Thread does
            if self.st.started and self.st.state != 'done':
                sched.block(lambda: self.st.state == 'done', 'Thread.join', timeout)     # a timed join just returns when time is up

    class FLock:
        """threading.Lock: not re-entrant - a thread that acquires it twice waits for itself"""

        def __init__(self):
            self.held = False

        def acquire(self, blocking=True, timeout=-1):
            sched.yield_point('Lock.acquire')
            if self.held:
                if not blocking:
                    return False
                sched.block(lambda: not self.held, 'Lock.acquire', None if timeout is None or timeout < 0 else timeout)
                if self.held:
                    return False
            self.held = True
            return True

        def release(self):
            if not self.held:
                raise RuntimeError('release unlocked lock')
            self.held = False
            sched.yield_point('Lock.release')

        def locked(self):
            return self.held

        def __enter__(self):
            self.acquire()
            return self

        def __exit__(self, *a):
            self.release()

    class FRLock:
        """threading.RLock"""

        def __init__(self):
            self.owner = None
            self.count = 0

        def acquire(self, blocking=True, timeout=-1):
            sched.yield_point('RLock.acquire')
            me = sched.current
            if self.owner is not None and self.owner is not me:
                if not blocking:
                    return False
                sched.block(lambda: self.owner is None, 'RLock.acquire', None if timeout is None or timeout < 0 else timeout)
                if self.owner is not None:
                    return False
            self.owner = me
            self.count += 1
            return True

        def release(self):
            if self.owner is not sched.current or self.count == 0:
                raise RuntimeError('cannot release un-acquired lock')
            self.count -= 1
            if self.count == 0:
                self.owner = None
            sched.yield_point('RLock.release')

        def __enter__(self):
            self.acquire()
            return self

        def __exit__(self, *a):
            self.release()

    ft = types.SimpleNamespace(Event=FEvent, Thread=FThread, Lock=FLock, RLock=FRLock,
                               current_thread=lambda: types.SimpleNamespace(name=sched.current.name if sched.current else 'main'))
    ftime = types.SimpleNamespace(time=sched.wall, sleep=sched.sleep)
    return ft, ftime


# ----------------------------------------------------------------------------- LINE pre-emption

_installed = {'codes': None}
CURRENT = [None]


def _on_line(code, line):
    s = CURRENT[0]
    if s is None or not s.active or not s.fine:
        return
    if code in s.atomic_codes:
        return
    me = s._mine()
    if me is None:
        return
    if s.pp.choice(s.density) == 1:
        s.count('preempt_in_' + code.co_name)
        inq = code in s.queue_codes
        if inq:
            s.log('qc-preempt', code.co_name, line)
        s.yield_point('line:%s:%d' % (code.co_name, line))
        if inq:
            s.log('qc-resume', code.co_name)


def install_monitoring(codes):
    """idempotent per process"""
    if _installed['codes'] is not None:
        return
    mon = sys.monitoring
    mon.use_tool_id(TOOL, 'sim')
    mon.register_callback(TOOL, mon.events.LINE, _on_line)
    for c in codes:
        mon.set_local_events(TOOL, c, mon.events.LINE)
    _installed['codes'] = list(codes)

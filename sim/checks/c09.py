"""C09 - contract checking is transparent (DESIGN.md section 4, C09)."""
import functools
import os
from fractions import Fraction as F

from sim.chart import Cfg, swarm, gen_spec, HIST
from sim.engine import Result, Abandon, fp, REPO
from sim.probes import SimClock, SkewClock
from sim.semrun import Sim, standard_ops, replay_script, legal_or_abandon
from sim.checks import common

from sismic import exceptions as sx
from sismic.interpreter import Interpreter
from sismic.code import PythonEvaluator
from sismic.io import import_from_yaml
from sismic.model import Event

ID = 'C09'
LEVEL = 'exploration'
BUDGET = {'quick': 20, 'thorough': 240}
BLOCK = 20
STREAM_ORDER = ['ops', 'guards', 'chart', 'cfg']
RULE = ('twin interpreters on the same chart and the same seeded script, ignore_contract=False (every condition true) vs True; lock-step '
        'equality of macro steps, configurations, contexts, sent events and the meta-event stream seen by an attached listener; the '
        'ignoring twin is run a second time with every condition false and must behave identically with zero condition evaluations; in half of the runs both twins use an evaluator that returns lists (as the Evaluator interface documents) instead of lazy iterators; in a third of the runs every twin also has a property statechart with contracts bound the deprecated way, as an interpreter built with ignore_contract=True, whose conditions must never be evaluated; in half of the runs the context holds an object that can be copied but not deep-copied; an unexpected error of the checking twin ends the history and is judged against the ignoring twin; when conditions use after() / idle(), half of the states also carry a postcondition and half of the transitions an invariant that ask them about a state that has just been left. '
        'One run in four uses the shipped elevator_contract.yaml / microwave_with_contracts.yaml driven by seeded domain events and clock '
        'advances (comparison covers the steps before a legitimately failing condition). non-trivial = a twin run with >= 1 evaluated '
        'condition and >= 2 macro steps; distinct = distinct (chart, script)')
COMPONENTS = {'real': common.REAL + ['sismic.io.import_from_yaml (shipped charts)', 'docs/examples/elevator/elevator_contract.yaml',
                                     'docs/examples/microwave/microwave_with_contracts.yaml'], 'stub': common.STUB}
ASSUMPTIONS = common.ASSUME
LEVEL_TEXT = 'differential twin-run exploration; the fault is "all conditions false" in the ignoring twin'
LEVEL_NOTE = 'trusted: the signature function that renders macro steps / contexts for comparison'
TECHNIQUE = 'deterministic simulation: twin runs under one seeded script (checking vs ignoring, conditions true vs false), lock-step differential oracle'


def sig(ms):
    if ms is None:
        return None
    return (ms.time, [(repr(m.event), m.transition and (m.transition.source, m.transition.target, m.transition.event, m.transition.action),
                       list(m.entered_states), list(m.exited_states), [repr(e) for e in m.sent_events]) for m in ms.steps])


def ctxsig(it, skip=('P',)):
    return {k: repr(v) for k, v in sorted(it.context.items()) if k not in skip and not callable(v)}


class Rec:
    def __init__(self, it):
        self.events = []
        it.attach(self)

    def __call__(self, me):
        self.events.append((me.name, sorted((k, repr(v)) for k, v in me.data.items())))


class Holder:
    """a context value that can be copied but not deep-copied (it holds a lock, as an object wrapping a resource does): __old__ is
    documented as a shallow copy of the context, so taking the snapshot must not need more than that"""

    def __init__(self):
        import threading
        self.lock = threading.Lock()


class Hits:
    def __init__(self):
        self.n = 0

    def hit(self):
        self.n += 1
        return True


def _watcher_chart():
    """a property statechart with contracts of its own; its interpreter is built with ignore_contract=True and handed over the
    deprecated way (bind_property_statechart(<interpreter>)): that flag is the interpreter's, whoever runs it"""
    from sismic.model import Statechart, CompoundState, BasicState, Transition
    sc = Statechart('watcher')
    sc.add_state(CompoundState('r', initial='s'), None)
    s_ = BasicState('s')
    s_.invariants.append('Q.hit()')
    s_.preconditions.append('Q.hit()')
    sc.add_state(s_, 'r')
    t_ = Transition('s', None, event='step started')
    t_.postconditions.append('Q.hit()')
    sc.add_transition(t_)
    return sc


WATCHER = _watcher_chart()


def watch(it):
    import warnings
    hits = Hits()
    with warnings.catch_warnings():
        warnings.simplefilter('ignore')
        it.bind_property_statechart(Interpreter(WATCHER, ignore_contract=True, initial_context={'Q': hits}))
    return hits


class ListEvaluator(PythonEvaluator):
    """an evaluator that answers with a list, as the Evaluator interface documents ("return a list of conditions that are
    not satisfied"): whoever asks it has every condition evaluated at once"""

    def evaluate_preconditions(self, obj, event=None):
        return list(super().evaluate_preconditions(obj, event))

    def evaluate_invariants(self, obj, event=None):
        return list(super().evaluate_invariants(obj, event))

    def evaluate_postconditions(self, obj, event=None):
        return list(super().evaluate_postconditions(obj, event))


def run(ch, tier):
    if ch.s('cfg').choice(4) == 3:
        return run_shipped(ch, tier)
    return run_generated(ch, tier)


def run_generated(ch, tier):
    res = Result()
    cfg = swarm(ch.s('cfg'), Cfg(contracts=True, bump=True, sends=True, notify=True, delays=True), tier)
    cfg.time_guards = ch.s('cfg').flag(1, 2)     # guards log after()/idle(): stamps must not depend on contract checking
    cfg.time_obs = ch.s('cfg').flag(1, 2)        # invariants use after()/idle(), code logs `time`
    skew = ch.s('cfg').flag(1, 2)                # a clock that moves at every read: checking must not read it more often
    mkclock = (lambda: SkewClock()) if skew else (lambda: SimClock())
    # in half of the runs both twins use an evaluator that returns lists instead of lazy iterators
    klass = functools.partial(Interpreter, evaluator_klass=ListEvaluator) if ch.s('cfg').flag(1, 2) else Interpreter
    sp = gen_spec(ch.s('chart'), cfg)
    if cfg.time_obs:
        # conditions evaluated when their state is no longer active: state postconditions that ask after(), transition
        # invariants that ask idle() about a source state that has just been left
        tp = ch.s('chart')
        for k_, n_ in enumerate(sorted(sp.states)):
            if sp.states[n_].kind not in HIST and tp.flag(1, 2):
                sp.states[n_].tpost = [(9000 + k_, tp.pick([0, 1, 2, 0.5]))]
        for t_ in sp.trans:
            if tp.flag(1, 2):
                t_.tinv_idle = tp.pick([0, 1, 2, 0.5])
    a = Sim(sp, ignore_contract=False, clock=mkclock(), interpreter_klass=klass)
    ra = Rec(a.it)
    watched = ch.s('cfg').flag(1, 3)
    hits = [watch(a.it)] if watched else []
    holder = ch.s('cfg').flag(1, 2)
    if holder:
        a.it.context['resource'] = Holder()
    recs = []
    erred = False
    for r in standard_ops(a, ch, tier, delays=True, hi=25 if tier == 'quick' else 60):
        res.stats['steps'] += 1
        if not r.init:
            legal_or_abandon(sp, r.pre, 'C09')
        if r.exc is not None and not (r.sel is not None and r.sel.err and type(r.exc).__name__ == r.sel.err):
            # generated code does not raise by itself and every generated condition holds: the history ends here and the
            # ignoring twin decides whether the error belongs to the checking (it is then a difference between the twins)
            # or to something both twins do
            recs.append((sig(r.ms), sorted(r.post), r.ctx_after, r.exc_name(), len(ra.events)))
            erred = True
            break
        recs.append((sig(r.ms), sorted(r.post), r.ctx_after, r.exc_name(), len(ra.events)))
    script = a.script
    for variant in ('conditions-true', 'conditions-false'):
        b = Sim(sp, ignore_contract=True, clock=mkclock(), interpreter_klass=klass)
        rb = Rec(b.it)
        if watched:
            hits.append(watch(b.it))
        if holder:
            b.it.context['resource'] = Holder()
        if variant == 'conditions-false':
            b.P.cond_truth = {j: False for j in range(sp.nconds)}
            b.P.default = True
        i = 0
        for r in replay_script(b, script):
            want = recs[i]
            got = (sig(r.ms), sorted(r.post), r.ctx_after, r.exc_name(), len(rb.events))
            ctx = dict(chart=sp.describe(), step=r.k, variant=variant, script=[repr(o)[:60] for o in script][:30])
            if isinstance(r.exc, sx.ContractError):
                return res.fail('contract-error-while-ignoring', '%s raised with ignore_contract=True' % r.exc_name(), **ctx)
            if got != want:
                names = ['macro step', 'configuration', 'context v', 'exception', 'number of meta-events']
                which = [n for n, x, y in zip(names, got, want) if x != y]
                return res.fail('twins-differ', 'step %d: %s differ between checking and ignoring twin: %r vs %r' % (
                    r.k, which, [y for x, y in zip(got, want) if x != y][0], [x for x, y in zip(got, want) if x != y][0]), **ctx)
            i += 1
        if rb.events != ra.events:
            j = next((j for j, (x, y) in enumerate(zip(ra.events, rb.events)) if x != y), min(len(ra.events), len(rb.events)))
            return res.fail('twins-differ', 'meta-event streams differ at %d: checking %r, ignoring %r' % (
                j, ra.events[j] if j < len(ra.events) else None, rb.events[j] if j < len(rb.events) else None),
                chart=sp.describe(), variant=variant)
        if b.P.cond_n != 0 or any(e[0] in ('cond', 'tcond', 'tpost', 'ttinv') for e in b.P.log):
            return res.fail('evaluated-while-ignoring', '%d contract conditions were evaluated with ignore_contract=True' % len([e for e in b.P.log if e[0] in ('cond', 'tcond', 'tpost', 'ttinv')]),
                            chart=sp.describe(), variant=variant)
        if [e for e in b.P.log if e[0] not in ('cond', 'tcond', 'tpost', 'ttinv')] != [e for e in a.P.log if e[0] not in ('cond', 'tcond', 'tpost', 'ttinv')]:
            return res.fail('twins-differ', 'executed code differs between the twins', chart=sp.describe(), variant=variant)
    if any(h.n for h in hits):
        return res.fail('evaluated-while-ignoring', 'a bound property statechart whose interpreter was built with ignore_contract=True evaluated '
                        '%s contract conditions' % [h.n for h in hits], chart=sp.describe())
    if erred:
        raise Abandon('other: the same unexpected error in both twins')
    res.stats['twin_runs_with_a_contract_ignoring_property_interpreter_bound'] += int(watched)
    res.stats['generated_twin_runs'] += 1
    res.stats['twin_runs_with_skewing_clock'] += int(skew)
    res.stats['twin_runs_with_a_list_returning_evaluator'] += int(klass is not Interpreter)
    res.stats['conditions_evaluated_in_checking_twin'] += a.P.cond_n
    if a.P.cond_n and len([x for x in recs if x[0] is not None]) >= 2:
        res.nontrivial.add(fp((sp.fingerprint(), [repr(o) for o in script])))
        res.sample = {'chart': sp.describe()[:14], 'script': [repr(o)[:60] for o in script][:15], 'conditions_evaluated': a.P.cond_n}
    res.sim_time = float(a.now())
    return res


SHIPPED = {
    'elevator': ('docs/examples/elevator/elevator_contract.yaml',
                 [('floorSelected', 'floor', [0, 1, 2, 3, 4, 5, 7, -1])]),
    'microwave': ('docs/examples/microwave/microwave_with_contracts.yaml',
                  [(n, None, None) for n in ['door_opened', 'door_closed', 'item_placed', 'item_removed', 'timer_inc', 'timer_dec',
                                            'timer_reset', 'power_inc', 'power_dec', 'power_reset', 'cooking_start', 'cooking_stop',
                                            'timer_tick']]),
}
_cache = {}


def shipped_text(which):
    if which not in _cache:
        with open(os.path.join(REPO, SHIPPED[which][0])) as f:
            _cache[which] = f.read()
    return _cache[which]


def run_shipped(ch, tier):
    res = Result()
    ops = ch.s('ops')
    which = ops.pick(['elevator', 'microwave'])
    text = shipped_text(which)
    twins = []
    for ignore in (False, True):
        clock = SimClock()
        it = Interpreter(import_from_yaml(text), clock=clock, ignore_contract=ignore)
        twins.append((it, clock, Rec(it)))
    alphabet = SHIPPED[which][1]
    n = ops.int(5, 40 if tier == 'quick' else 100)
    script = []
    failed = None
    nsteps = 0
    for k in range(n + 1):
        op = 'step' if k == 0 else ops.weighted([('step', 6), ('event', 5), ('advance', 2)])
        if op == 'event':
            name, par, vals = ops.pick(alphabet)
            kw = {par: ops.pick(vals)} if par else {}
            script.append((name, kw))
            for it, _, _ in twins:
                it.queue(Event(name, **kw))
        elif op == 'advance':
            d = ops.pick([1, 0, 5, 10, 11])
            script.append(('advance', d))
            for _, c, _ in twins:
                c.advance(d)
        else:
            script.append('step')
            out = []
            for it, _, _ in twins:
                try:
                    out.append(('ok', sig(it.execute_once()), it.configuration, ctxsig(it)))
                except sx.ContractError as e:
                    out.append(('contract', type(e).__name__, str(e.condition)))
                except (sx.NonDeterminismError, sx.ConflictingTransitionsError) as e:
                    out.append(('exec', type(e).__name__))
            ctx = dict(chart=SHIPPED[which][0], script=script[-25:])
            if out[1][0] == 'contract':
                return res.fail('contract-error-while-ignoring', '%s raised with ignore_contract=True' % out[1][1], **ctx)
            if out[0][0] == 'contract':
                res.stats['shipped_condition_failed_legitimately'] += 1
                failed = out[0]
                break
            if out[0] != out[1]:
                return res.fail('twins-differ', 'shipped %s: checking twin %r, ignoring twin %r' % (which, out[0], out[1]), **ctx)
            if out[0][0] == 'ok' and out[0][1] is not None:
                nsteps += 1
    if failed is None and twins[0][2].events != twins[1][2].events:
        return res.fail('twins-differ', 'shipped %s: meta-event streams differ' % which, script=script[-25:])
    res.stats['shipped_twin_runs_' + which] += 1
    if nsteps >= 2:
        res.nontrivial.add(fp((which, script)))
        if res.sample is None:
            res.sample = {'chart': SHIPPED[which][0], 'script': script[:20], 'macro_steps': nsteps}
    res.sim_time = float(twins[0][1]._t)
    return res

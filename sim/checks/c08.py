"""C08 - contracts are checked at the documented points; failures raise the right error (DESIGN.md section 4, C08)."""
import re
from collections import Counter

from sim.chart import Cfg, swarm, gen_spec, cond_code, tid, HIST, build_api
from sim.engine import Result, Abandon, fp
from sim.probes import ev
from sim.semrun import Sim, standard_ops, replay_script, legal_or_abandon, materialise
from sim.checks import common

from sismic import exceptions as sx

ID = 'C08'
LEVEL = 'fault_enumeration'
RUN_LIMIT_CPU_S = 600     # one run enumerates hundreds of fault positions in the thorough tier
BUDGET = {'quick': 25, 'thorough': 300}
BLOCK = 10
STREAM_ORDER = ['ops', 'guards', 'faults', 'mat', 'chart', 'cfg']
RULE = (common.GEN + 'every state (all kinds, history and final included) and transition carries 0-3 conditions of each kind (now and then the very same text twice in one list: evaluated once per occurrence), each a probe '
        'P.cond(j, v, __old__, event) - a third of them also logs sent(na), sent(ea) and received(ea), which are compared with the events the returned micro steps sent so far (in half of the runs code sends and notifies) -; code modifies the context variable v; a third of the guarded transitions have no action at all (their conditions are due all the same). Twin runs: run A (all conditions true) is checked against the '
        'interleaving of code and contract probes implied by the returned micro steps and against the model value of v / __old__.v; then '
        'for EVERY contract-evaluation occurrence k of run A (thorough) or 12 drawn occurrences (quick) run B_k replays the same script '
        'with occurrence k returning false and must raise the right error class with .obj/.condition, with a probe log equal to the '
        'prefix of A; a listener attached to every run B_k must not have been told that a state was exited before its failing postcondition, nor anything at all after the failure; the extended conditions of a state also log active(<that state>). non-trivial = one injected failure position; distinct = distinct (chart, condition, occurrence context)')
COMPONENTS = {'real': common.REAL, 'stub': common.STUB + ['contract condition bodies: probe calls whose verdict the simulator decides']}
ASSUMPTIONS = common.ASSUME + ['the order in which the invariants of different active states are evaluated at the end of a step is not constrained']
LEVEL_TEXT = ('per sampled (chart, history) the space of single failing contract occurrences is enumerated completely in the thorough tier '
              '(coverage.exhaustive refers to that inner space, the outer space of charts and histories is sampled)')
LEVEL_NOTE = 'trusted: the fault-free twin as oracle for the prefix property; the 40-line expected-interleaving builder for run A'
TECHNIQUE = 'deterministic simulation with fault injection: fault-free twin run + enumeration of the failing contract occurrence, prefix/exception oracle'

KIND_ERR = {'pre': 'PreconditionError', 'post': 'PostconditionError', 'inv': 'InvariantError'}


def owners(sp):
    """cond id -> (owner label, kind, is_transition, owner key)"""
    out = {}
    for s in sp.states.values():
        for kind, ids in (('pre', s.pre), ('post', s.post), ('inv', s.inv)):
            for j in ids:
                out[j] = ('state ' + s.name, kind, False, s.name)
    for t in sp.trans:
        for kind, ids in (('pre', t.pre), ('post', t.post), ('inv', t.inv)):
            for j in ids:
                out[j] = ('transition t%d' % t.i, kind, True, t.i)
    return out


class VModel:
    def __init__(self):
        self.v = 0
        self.w = 0          # length of the list w, which code extends in place
        self.old = {}


def _live(old, vm):
    """__old__ is a shallow copy: the inner list of u is shared with the live context, so its length is the current one"""
    return None if old is None else (old[0], old[1], vm.w, old[3], True)


def expected(sp, r, vm, flags=None):
    """(body, tail) of the log the returned step implies; vm is advanced.  `flags` (a list) receives, per body entry, what
    sent()/received() may answer there: (names sent in earlier micro steps of this step, those plus the names sent by the
    current micro step, name of the event being processed) - the documentation fixes "sent during the current step", not
    the instant within a micro step at which its own sends start to count"""
    body = []
    sent_prev = set()
    if r.ms is not None:
        for m in r.ms.steps:
            evm = ev(m.event)
            if flags is not None:
                while len(flags) < len(body):
                    flags.append(flags_cur)
            cur = {e.name for e in m.sent_events}
            flags_cur = (frozenset(sent_prev), frozenset(sent_prev | cur), m.event.name if m.event is not None else None)
            sent_prev |= cur
            for sname in m.exited_states:
                s = sp.states[sname]
                body.append(('exit', sname))
                if s.bump_exit:
                    vm.v += 2
                    vm.w += 1
                for j in s.post:
                    body.append(('cond', j, vm.v, _live(vm.old.get(sname), vm), None))
            if m.transition is not None:
                t = sp.trans[tid(m.transition)]
                oldt = (vm.v, vm.w, 'live', vm.w)
                for j in t.pre:
                    body.append(('cond', j, vm.v, None, evm))
                for j in t.inv:
                    body.append(('cond', j, vm.v, _live(oldt, vm), evm))
                if not t.noact:
                    body.append(('act', t.i, evm))
                if t.bump:
                    vm.v += 3
                    vm.w += 1
                for j in t.post:
                    body.append(('cond', j, vm.v, _live(oldt, vm), evm))
                for j in t.inv:
                    body.append(('cond', j, vm.v, _live(oldt, vm), evm))
            for sname in m.entered_states:
                s = sp.states[sname]
                vm.old[sname] = (vm.v, vm.w, 'live', vm.w)
                for j in s.pre:
                    body.append(('cond', j, vm.v, None, None))
                body.append(('entry', sname))
                if s.bump_entry:
                    vm.v += 1
                    vm.w += 1
        if flags is not None:
            while len(flags) < len(body):
                flags.append(flags_cur)
            flags.append((frozenset(sent_prev), frozenset(sent_prev), r.ms.event.name if r.ms.event is not None else None))
    elif flags is not None:
        flags.append((frozenset(), frozenset(), None))
    tail = {}
    for sname in r.post:
        s = sp.states[sname]
        if s.inv:
            tail[sname] = [('cond', j, vm.v, _live(vm.old.get(sname), vm), None) for j in s.inv]
    return body, tail


def run(ch, tier):
    res = Result()
    cfg = swarm(ch.s('cfg'), Cfg(contracts=True, bump=True, sentconds=True, noact=True, dupconds=True, sends=ch.s('cfg').flag(1, 2), notify=ch.s('cfg').flag(1, 2)), tier)
    sp = gen_spec(ch.s('chart'), cfg)
    own = owners(sp)
    cfp = fp(sp.fingerprint())
    # ---------------- run A: all conditions hold
    # one statechart object for all the twins of this run: usually built through the API, now and then through the editing API
    # or from a YAML document (the importer has to carry the contracts of every kind of state)
    sc0 = materialise(sp, ch, res) or build_api(sp)
    sim = Sim(sp, ignore_contract=False, statechart=sc0)
    # in a third of the runs another interpreter of the same statechart (same state and transition names, other values
    # of the variables) is alive and stepped in between: interpreters share nothing, so this must not be observable
    shadow = None
    if ch.s('cfg').flag(1, 3):
        shadow = Sim(sp, ignore_contract=False, statechart=build_api(sp, preamble='v = 500\nw = [1, 2, 3]\nu = [[7]]\nbox = P.newbox(9)'))
        res.stats['runs_with_a_second_live_interpreter_of_the_same_chart'] += 1
    vm = VModel()
    A = []           # (step index, log) per step
    hi = 14 if tier == 'quick' else 25
    for r in standard_ops(sim, ch, tier, lo=3, hi=hi):
        res.stats['steps'] += 1
        if shadow is not None:
            try:
                if r.ms is not None and r.ms.event is not None:
                    shadow.it.queue(r.ms.event.name)
                shadow.P.truth = dict(r.truth)
                shadow.it.execute_once()
                shadow.it.execute_once()
            except Exception:
                shadow = None
        if not r.init:
            legal_or_abandon(sp, r.pre, 'C08')
        if r.exc is not None:
            if r.sel is not None and r.sel.err and type(r.exc).__name__ == r.sel.err:
                A.append((r.k, [e for e in r.log if e[0] == 'cond']))
                if A[-1][1]:
                    return res.fail('contract-evaluated-in-failed-step', 'conditions evaluated in a step that raised %s' % r.exc_name(),
                                    chart=sp.describe())
                continue
            if isinstance(r.exc, sx.CodeEvaluationError):
                # the generated conditions are probe calls that cannot fail by themselves
                return res.fail('condition-evaluation-raised', 'evaluating a contract condition raised %s' % re.sub(r'0x[0-9a-f]+', '0x..', str(r.exc))[:160],
                                chart=sp.describe(), step=r.k)
            raise Abandon('other: unexpected %s in the fault-free twin' % r.exc_name())
        log = [e for e in r.log if e[0] in ('cond', 'entry', 'exit', 'act')]
        flags = []
        body, tail = expected(sp, r, vm, flags)
        ctx = dict(chart=sp.describe(), step=r.k, micro_steps=r.ms and [repr(m) for m in r.ms.steps],
                   configuration=sp.canon(r.post), executed=[e[:5] for e in log][:40])
        got_body = [e[:5] for e in log[:len(body)]]
        if got_body != body:
            i = next((i for i, (a, b) in enumerate(zip(got_body, body)) if a != b), min(len(got_body), len(body)))
            return res.fail('evaluation-point', 'position %d of the step: executed %r, documented order requires %r '
                            '(cond entries are (cond, id, v, (__old__.v, len(__old__.w), len(__old__.u[0]), __old__.box.n, mapping protocol ok), event); %s)' % (
                                i, got_body[i] if i < len(got_body) else 'nothing', body[i] if i < len(body) else 'nothing',
                                own.get(body[i][1], ('',))[0] + ' ' + own.get(body[i][1], ('', ''))[1] if i < len(body) and body[i][0] == 'cond' else ''), **ctx)
        rest = [e[:5] for e in log[len(body):]]
        per = {}
        for e in rest:
            if e[0] != 'cond' or own[e[1]][1] != 'inv' or own[e[1]][2]:
                return res.fail('evaluation-point', 'after the last micro step %r ran; only state invariants are expected there' % (e,), **ctx)
            per.setdefault(own[e[1]][3], []).append(e)
        if per != tail:
            return res.fail('end-of-step-invariants', 'invariants evaluated at the end of the step: %s; active states with invariants require: %s' % (
                {k: [x[1:4] for x in v] for k, v in sorted(per.items())}, {k: [x[1:4] for x in v] for k, v in sorted(tail.items())}), **ctx)
        if r.ms is None and tail:
            res.stats['invariants_checked_on_empty_step'] += 1
        # sent() / received() as seen by the conditions written in the extended form
        for i, e in enumerate(log):
            if e[0] != 'cond' or len(e) < 7:
                continue
            lower, upper, recv = flags[min(i, len(flags) - 1)]
            s_na, s_ea, r_ea = e[6][:3]
            res.stats['sent_received_predicates_checked'] += 1
            for nm, got in (('na', s_na), ('ea', s_ea)):
                if nm in lower:
                    res.stats['sent_predicate_true_by_an_earlier_micro_step'] += 1
                if (nm in lower and not got) or (nm not in upper and got):
                    return res.fail('sent-predicate', "condition #%d (%s) at position %d of the step saw sent(%r) = %r; events sent in this macro step "
                                    'before the current micro step: %s, including it: %s' % (
                                        e[1], own[e[1]][0] + ' ' + own[e[1]][1], i, nm, got, sorted(lower), sorted(upper)), **ctx)
            if len(e[6]) > 3:
                # a state's own condition: before the state is entered / after it is exited it is not active, its invariants
                # are checked while it is
                kind_ = own[e[1]][1]
                res.stats['active_of_own_state_checked_in_' + kind_] += 1
                if bool(e[6][3]) != (kind_ == 'inv'):
                    return res.fail('active-predicate', "%s condition #%d of %s saw active(%r) = %r; preconditions are checked before the state is "
                                    'entered, postconditions after it is exited, invariants while it is active' % (
                                        kind_, e[1], own[e[1]][0], own[e[1]][3], e[6][3]), **ctx)
            if bool(r_ea) != (recv == 'ea'):
                return res.fail('received-predicate', "condition #%d (%s) at position %d of the step saw received('ea') = %r while the event being "
                                'processed is %r' % (e[1], own[e[1]][0] + ' ' + own[e[1]][1], i, r_ea, recv), **ctx)
        A.append((r.k, [e for e in r.log if e[0] == 'cond']))
    L = list(sim.P.log)
    n = sim.P.cond_n
    script = sim.script
    res.stats['contract_evaluations_in_fault_free_twin'] += n
    if n == 0:
        return res
    # ---------------- runs B_k
    fs = ch.s('faults')
    if tier == 'thorough' or n <= 12:
        ks = list(range(1, n + 1))
        res.stats['runs_with_all_positions_enumerated'] += 1
    else:
        ks = sorted(set(1 + fs.choice(n) for _ in range(12)))
    for k in ks:
        entry = next(e for e in L if e[0] == 'cond' and e[5] == k)
        label, kind, is_t, key = own[entry[1]]
        simb = Sim(sp, ignore_contract=False, statechart=sc0)
        simb.P.fail_at = k
        heard = []
        simb.it.attach(lambda me, _s=simb: heard.append((me.name, me.data.get('state'), len(_s.P.log))))
        exc = None
        for r in replay_script(simb, script):
            if r.exc is not None and not (r.sel is not None and r.sel.err and type(r.exc).__name__ == r.sel.err):
                exc = r.exc
                break
            if simb.P.cond_n >= k:
                break
        ctx = dict(chart=sp.describe(), failing_occurrence=k, condition='%s %s #%d' % (label, kind, entry[1]),
                   script=[repr(o)[:60] for o in script][:30], fault_free_log_tail=[e[:5] for e in L[max(0, L.index(entry) - 6):L.index(entry) + 1]])
        res.stats['fault_contract_failure_injected_' + kind] += 1
        if exc is None:
            return res.fail('failure-not-reported', 'occurrence %d (%s, %s) evaluated to false but execute_once returned normally' % (k, label, kind), **ctx)
        if type(exc).__name__ != KIND_ERR[kind]:
            return res.fail('wrong-error-class', 'failing %s of %s raised %s, expected %s' % (kind, label, type(exc).__name__, KIND_ERR[kind]), **ctx)
        obj = exc.obj
        ok_obj = (tid(obj) == key) if is_t and hasattr(obj, 'action') else (getattr(obj, 'name', None) == key and not is_t)
        if not ok_obj:
            return res.fail('wrong-error-object', 'error for %s carries obj=%r' % (label, obj), **ctx)
        want_cond = cond_code(entry[1], kind, is_t, True, None if is_t else key)
        if exc.condition != want_cond:
            return res.fail('wrong-error-condition', 'error for %s #%d carries condition %r, expected %r' % (label, entry[1], exc.condition, want_cond), **ctx)
        Lb = simb.P.log
        cut = L.index(entry) + 1
        if Lb != L[:cut]:
            i = next((i for i, (a, b) in enumerate(zip(Lb, L[:cut])) if a != b), min(len(Lb), cut))
            return res.fail('code-ran-after-failure' if len(Lb) > cut else 'prefix-differs',
                            'with occurrence %d failing the run executed %d probe events, the fault-free prefix has %d; first difference at %d: %r vs %r' % (
                                k, len(Lb), cut, i, Lb[i] if i < len(Lb) else None, L[i] if i < cut else None), **ctx)
        late = [h for h in heard if h[2] >= cut]
        if late:
            return res.fail('notified-after-failure', 'after occurrence %d (%s, %s) evaluated to false listeners were still told %s' % (
                k, label, kind, [h[0] for h in late]), **ctx)
        if kind == 'post' and not is_t:
            # "postconditions just after its exit code": nobody is told that the state was exited in between
            st_ = sp.states[key]
            start = cut - 1 - (1 + len(st_.exit_sends) + st_.post.index(entry[1]))
            if start >= 0 and L[start] == ('exit', key):
                res.stats['listener_watched_a_failing_state_postcondition'] += 1
                told = [h for h in heard if h[0] == 'state exited' and h[1] == key and h[2] > start]
                if told:
                    return res.fail('notified-before-postcondition', "listeners were told 'state exited' %s (after %d probe events) before its "
                                    'postcondition #%d, evaluated right after the exit code at probe event %d, failed' % (
                                        key, told[0][2], entry[1], start), **ctx)
        res.nontrivial.add(fp((cfp, entry[1], k)))
        if res.sample is None:
            res.sample = dict(ctx, raised=type(exc).__name__)
    res.sim_time = float(sim.now())
    return res


def coverage_extra(agg):
    return {'exhaustive': False,
            'note': 'inner fault space (failing occurrence k) enumerated completely for runs counted in runs_with_all_positions_enumerated'}

"""C06 - history states restore exactly what was active (DESIGN.md section 4, C06)."""
from collections import Counter

from sim import ref
from sim.chart import Cfg, swarm, gen_spec, HIST
from sim.engine import Result, Abandon, fp
from sim.semrun import Sim, standard_ops, legal_or_abandon, groups, materialise
from sim.checks import common

ID = 'C06'
LEVEL = 'exploration'
BUDGET = {'quick': 20, 'thorough': 240}
STREAM_ORDER = ['ops', 'guards', 'mat', 'chart', 'cfg']
RULE = (common.GEN + 'charts are forced to contain history states (shallow and deep, nested, inside orthogonal regions) and transitions '
        'towards them; history memory is recorded from the real pre-exit configuration every time a compound parent appears in the '
        'exited states; on every transition that targets a history state the re-activated sub-configuration is compared with that '
        'memory (directly, and through the reference default entry below a shallowly restored state); non-trivial = such a transition '
        'taken after the parent had been exited at least once; distinct = distinct (chart, history state, remembered states, '
        'pre-configuration)')
COMPONENTS = {'real': common.REAL, 'stub': common.STUB}
ASSUMPTIONS = common.ASSUME + ['whether the history pseudo-state itself shows up as entered-then-exited is not constrained']
LEVEL_TEXT = ('seeded exploration of exit / re-entry histories; memory is derived from the real exits, so the oracle follows the real '
              'run and asserts only the restoration clause')
LEVEL_NOTE = 'trusted: sim.ref.record_memory (10 lines) and sim.ref.stabilise for default entry below a shallowly restored state'
TECHNIQUE = 'deterministic simulation: seeded chart+history search biased to exit/re-enter history parents, memory-vs-restoration oracle, shrinking, replay'


def run(ch, tier):
    res = Result()
    cfg = swarm(ch.s('cfg'), Cfg(force_history=True, history=True, bump=False), tier)
    cfg.history = True
    cfg.max_states = max(cfg.max_states, 6)
    sp = gen_spec(ch.s('chart'), cfg)
    sim = Sim(sp, statechart=materialise(sp, ch, res))
    cfp = fp(sp.fingerprint())
    exits = Counter()          # history state -> number of times its parent was exited
    distinct_mem = {}
    for r in standard_ops(sim, ch, tier, p_true=(6, 8)):
        res.stats['steps'] += 1
        if not r.init:
            legal_or_abandon(sp, r.pre, 'C06')
            if r.sel.err:
                if r.exc is None or type(r.exc).__name__ != r.sel.err:
                    raise Abandon('C04: predicted %s, got %s' % (r.sel.err, r.exc_name()))
                continue
        if r.exc is not None:
            raise Abandon('other: unexpected %s' % r.exc_name())
        if r.ms is None:
            continue
        mem = {k: list(v) for k, v in r.mem_before.items()}
        for g in groups(sp, r, r.mem_before):
            # memory as of this group's start: replay the real exits of the earlier groups
            conf = set(g.conf_before)
            tgt = g.t.tgt if g.t is not None else None
            # first account for what this very transition exits (a transition from an ancestor of the
            # history's parent exits that parent before re-entering it)
            cc = set(conf)
            m0 = g.micros[0]
            ref.record_memory(sp, cc, [x for x in m0.exited_states if x in sp.states], mem)
            for h in mem:
                pass
            if tgt is not None and sp.kind(tgt) in HIST:
                h = tgt
                parent = sp.states[h].parent
                remembered = mem.get(h)
                ctx = dict(chart=sp.describe(), history_state=h, kind=sp.kind(h), parent=parent,
                           remembered=remembered and sp.canon(remembered), declared_memory=sp.states[h].memory,
                           pre=sp.canon(conf), transition='t%d' % g.t.i, entered=g.entered,
                           post=sp.canon(g.conf_after), step=r.k)
                after_sub = set(n for n in g.conf_after if n in sp.desc(parent))
                if remembered is None:
                    res.stats['default_memory_used'] += 1
                    if sp.states[h].memory not in after_sub:
                        return res.fail('default-memory', 'history %s never had its parent exited, declared memory %s is not active '
                                        'after entering it (active below %s: %s)' % (h, sp.states[h].memory, parent, sp.canon(after_sub)), **ctx)
                elif sp.kind(h) == 'shallow':
                    kids = [c for c in sp.states[parent].children if c in g.conf_after]
                    if kids != list(remembered):
                        return res.fail('shallow-restore', 'shallow history %s: child %s of %s was active when %s was last exited, '
                                        'now active: %s' % (h, remembered, parent, parent, kids), **ctx)
                else:
                    if after_sub != set(remembered):
                        return res.fail('deep-restore', 'deep history %s: sub-configuration of %s at its last exit was %s, '
                                        'restored: %s' % (h, parent, sp.canon(remembered), sp.canon(after_sub)), **ctx)
                    order = [s for s in g.entered if s in after_sub]
                    for i, a in enumerate(order):
                        for b in order[i + 1:]:
                            if b in sp.anc(a):
                                return res.fail('deep-restore-order', '%s re-entered before its parent %s' % (a, b), **ctx)
                # whole-group comparison with the reference (default entry continues below a shallowly restored state)
                real_en = Counter(s for s in g.entered if sp.kind(s) not in HIST)
                if real_en != Counter(g.exp_entered) or g.conf_after != g.exp_conf:
                    return res.fail('restore-vs-reference', 'entered %s -> %s, reference enters %s -> %s' % (
                        g.entered, sp.canon(g.conf_after), g.exp_entered, sp.canon(g.exp_conf)), **ctx)
                why = ref.legal(sp, g.conf_after)
                if why:
                    raise Abandon('C02: %s' % why.split(' ')[0])
                if remembered is not None:
                    res.nontrivial.add(fp((cfp, h, sorted(remembered), sorted(conf))))
                    res.stats['restored_%s' % sp.kind(h)] += 1
                    if exits[h] >= 2:
                        res.stats['restored_after_2plus_exits'] += 1
                    seen = distinct_mem.setdefault(h, set())
                    seen.add(tuple(sorted(remembered)))
                    if len(seen) >= 2:
                        res.stats['restored_with_a_second_distinct_memory'] += 1
                    if any(sp.kind(x) == 'orthogonal' for x in remembered):
                        res.stats['restored_orthogonal_content'] += 1
                    if res.sample is None:
                        res.sample = ctx
            # bookkeeping: parents exited in this group
            for m in g.micros:
                for x in m.exited_states:
                    if x in sp.states and sp.kind(x) == 'compound':
                        for hh in sp.states[x].children:
                            if sp.kind(hh) in HIST:
                                exits[hh] += 1
                ref.record_memory(sp, conf, [x for x in m.exited_states if x in sp.states], mem)
                conf.difference_update(m.exited_states)
                conf.update(m.entered_states)
    res.sim_time = float(sim.now())
    return res

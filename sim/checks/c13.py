"""C13 - time is frozen per step; after() and idle() mean what they say (DESIGN.md section 4, C13)."""
from fractions import Fraction as F

from sim.chart import Cfg, swarm, gen_spec, HIST, tid
from sim.engine import Result, Abandon, fp
from sim.probes import SimClock, SkewClock, IntClock
from sim.semrun import Sim, TICK, legal_or_abandon, materialise
from sim.checks import common

ID = 'C13'
LEVEL = 'exploration'
BUDGET = {'quick': 20, 'thorough': 240}
STREAM_ORDER = ['ops', 'guards', 'mat', 'chart', 'cfg']
RULE = ('well-formed chart drawn per run whose guards are P.tguard(i, event, after(d), idle(d2), time), whose states carry invariants '
        'P.tcond(j, after(d), idle(d2), time), half of whose states carry a postcondition P.tpost(j, after(d), time), half of whose transitions carry an invariant P.ttinv(i, idle(d), time), a third of whose transitions carry a postcondition P.ttpost(i, after(d), time) and whose entry/exit/action code logs the `time` variable; contract checking is on. The '
        'interpreter clock is a SkewClock (a larger value at every read) in half of the runs and a SimClock moved from inside probe calls '
        '(i.e. during the step) in the other half - half of those count integer ticks from 2**62+3, which no double represents; a third of the rest use decimal times (0.1, 0.3, ...) and only check that every evaluation of one predicate about one state in one step gives the same answer -; advances are drawn from {0, exactly d, d -/+ one tick, large}. Every time observation '
        '(generated code cannot raise by itself: a CodeEvaluationError is a violation) of a step must equal the first clock value read by execute_once (in a third of the runs on a skewing or plain clock the chart also sends events, with delays, and events are queued with a delay between steps: neither moves anybody\'s time, and a step that finds an internal event due samples the clock like any other), and every logged after/idle value must equal the exact '
        'comparison with entry / idle stamps kept by the model from the real entered lists and fired transitions. non-trivial = a step '
        'with >= 1 after/idle observation whose stamp differs from the step time; distinct = distinct (chart, step time, stamps of the '
        'observed states)')
COMPONENTS = {'real': common.REAL + ['sismic.clock.Clock (abstract base)'],
              'stub': ['interpreter clock: SkewClock / SimClock advanced by probe side effects inside a step'] + common.STUB[1:]}
ASSUMPTIONS = common.ASSUME + ['times are dyadic rationals, so float comparisons are exact',
                               'time predicates are exercised in guards, state invariants and (after() only) state postconditions, and idle() in transition invariants for the evaluation that precedes the action (after the action the property does not say whether the transition has fired yet)']
LEVEL_TEXT = ('seeded exploration of clock trajectories including movement during a step (fault), with an exact stamp model; every '
              'time observation of every step is asserted')
LEVEL_NOTE = 'trusted: the stamp bookkeeping in sim.semrun.Sim.step (entry/idle from the real entered lists and transitions)'
TECHNIQUE = 'deterministic simulation: simulator-owned skewing clock + intra-step clock faults, exact stamp model, shrinking, replay'


def run(ch, tier):
    res = Result()
    cs = ch.s('cfg')
    cfg = swarm(cs, Cfg(time_guards=True, time_obs=True, internal=True, pair_bias=0), tier)
    skew = cs.flag(1, 2)
    bigint = not skew and cs.flag(1, 2)
    decimal = not skew and not bigint and cs.flag(1, 3)
    # in a third of the runs on a skewing or plain clock the chart also sends events (with delays): a step that finds an internal
    # event due samples the clock like any other, and sending or queueing a delayed event moves nobody's time
    sending = not bigint and not decimal and cs.flag(1, 3)
    if sending:
        cfg.sends = cfg.delays = True
    sp = gen_spec(ch.s('chart'), cfg)
    # state postconditions that use after(): evaluated when the state is left, possibly in a later micro step of the macro
    # step that entered it
    tp = ch.s('chart')
    for k_, n_ in enumerate(sorted(sp.states)):
        if sp.states[n_].kind not in HIST and tp.flag(1, 2):
            sp.states[n_].tpost = [(9000 + k_, tp.pick([0, 1, 2, 0.5]))]
    # transition invariants that use idle(): the evaluation that precedes the action sees the source state as the guard did
    for t in sp.trans:
        if tp.flag(1, 2):
            t.tinv_idle = tp.pick([0, 1, 2, 0.5])
    # transition postconditions that use after(): evaluated after the action, about the source state (left by then unless the
    # transition is internal) - its entry stamp is still the one the guard saw
    for t in sp.trans:
        if tp.flag(1, 3):
            t.tpost_after = tp.pick([0, 1, 2, 0.5])
    # decimal mode: times and durations that no double represents exactly (0.1, 0.3, ...).  What a predicate answers on a boundary
    # then depends on rounding, so the exact model is switched off; what remains is that after(d) / idle(d) is a *function* of
    # (step time, stamp, d): a guard and a contract of the same state asking the same question in the same step agree
    if decimal:
        d0 = tp.pick([0.1, 0.2, 0.3, 0.5, 0.7])
        for t in sp.trans:
            t.tg_after = None if t.tg_after is None else d0
            t.tg_idle = None if t.tg_idle is None else d0
            t.tinv_idle = None if t.tinv_idle is None else d0
            t.tpost_after = None if t.tpost_after is None else d0
        for s_ in sp.states.values():
            s_.tinv = [(j, None if a is None else d0, None if i is None else d0) for j, a, i in s_.tinv]
            s_.tpost = [(j, d0) for j, a in s_.tpost]
    plain = not skew and not bigint and not decimal
    scale = 1
    if bigint:
        # an integer tick counter far beyond 2**53: every duration of the chart is expressed in ticks (1/64 time unit)
        scale = 64
        for t in sp.trans:
            t.tg_after = None if t.tg_after is None else int(t.tg_after * 64)
            t.tg_idle = None if t.tg_idle is None else int(t.tg_idle * 64)
        for s_ in sp.states.values():
            s_.tinv = [(j, None if a is None else int(a * 64), None if i is None else int(i * 64)) for j, a, i in s_.tinv]
            s_.tpost = [(j, int(a * 64)) for j, a in s_.tpost]
        for t in sp.trans:
            t.tinv_idle = None if t.tinv_idle is None else int(t.tinv_idle * 64)
            t.tpost_after = None if t.tpost_after is None else int(t.tpost_after * 64)
    clock = SkewClock() if skew else IntClock() if bigint else SimClock()
    sim = Sim(sp, clock=clock, ignore_contract=False, statechart=materialise(sp, ch, res))
    moves = [0]
    if not skew:
        mv = ch.s('moves')

        def on_probe(kind):
            d = mv.pick([0, 0, 1 / 64, 1, 8]) * scale
            if decimal:
                d = (0, 0, 0.1, 0.2, 0.3)[int(d * 64) % 5]
            if d:
                moves[0] += 1
                clock.advance(d)
        sim.P.on_probe = on_probe
    started = []
    during = []
    sim.it.attach(lambda me: (started.append(me.time), during.append(sim.it.time)) if me.name == 'step started' else None)
    cfp = fp(sp.fingerprint())
    ops = ch.s('ops')
    gs = ch.s('guards')
    names = (sorted({t.event for t in sp.trans if t.event}) or ['ea']) + ['zz']
    n = ops.int(5, 40 if tier == 'quick' else 80)
    last_time = sim.it.time
    for k in range(n + 1):
        op = 'step' if k == 0 else ops.weighted([('step', 5), ('queue', 3), ('advance', 4)])
        if sim.it.time != last_time:
            return res.fail('time-moved-outside-step', 'Interpreter.time changed from %r to %r without a call to execute_once'
                            % (last_time, sim.it.time), chart=sp.describe())
        if op == 'queue':
            live = sorted({t.event for t in sp.trans if t.event and t.src in set(sim.it.configuration)})
            name_ = ops.pick(live) if live and ops.flag(3, 4) else ops.pick(names)
            if sending and ops.flag(1, 3):
                sim.queue(name_, delay=ops.pick([1, 2, 0.5]))
            else:
                sim.queue(name_)
            continue
        if op == 'advance':
            if decimal:
                sim.clock.advance(ops.pick([0.1, 0.2, 0.3, 0.1, 0.4, 0.5]))
            elif plain and ops.flag(1, 6):
                # the clock goes backwards: the next step's time is what it then shows
                sim.advance(-ops.pick([F(1), F(1, 2), F(3)]))
                res.stats['fault_clock_moved_backwards_between_steps'] += 1
            else:
                sim.advance(scale * ops.pick([F(1), F(0), TICK, F(1) - TICK, F(1) + TICK, F(1, 2), F(2), F(3), F(2) - TICK, F(50)]))
            continue
        truth = sim.draw_truth(gs, 5, 8)
        del started[:]
        T = sim.now()
        r = sim.step(truth)
        res.stats['steps'] += 1
        last_time = sim.it.time
        if not r.init:
            legal_or_abandon(sp, r.pre, 'C13')
        if r.exc is not None:
            if r.sel is not None and r.sel.err and type(r.exc).__name__ == r.sel.err:
                if F(sim.it.time) != T:
                    return res.fail('step-time', 'Interpreter.time is %r after a (failed) step called at clock %r' % (sim.it.time, float(T)),
                                    chart=sp.describe())
                continue
            if type(r.exc).__name__ == 'CodeEvaluationError':
                # generated code consists of probe calls fed with time / after() / idle(): it cannot raise by itself
                return res.fail('predicate-raised', 'evaluating generated code (probe calls fed with time, after(), idle()) raised: %s'
                                % str(r.exc)[:160].replace('\n', ' '), chart=sp.describe(), step=r.k)
            raise Abandon('other: unexpected %s' % r.exc_name())
        ctx = dict(chart=sp.describe(), step=r.k, T=float(T), clock='SkewClock' if skew else 'integer tick clock starting at 2**62+3, moved by probes' if bigint else 'SimClock moved by probes',
                   entry_stamps={k2: float(v) for k2, v in sorted(r.entry_before.items())},
                   idle_stamps={k2: float(v) for k2, v in sorted(r.idle_before.items())},
                   log=[e for e in r.log if e[0] in ('tguard', 'tcond', 'obs')][:20])
        if F(sim.it.time) != T:
            return res.fail('step-time', 'Interpreter.time is %r after a step called when the clock showed %r' % (sim.it.time, float(T)), **ctx)
        if r.ms is not None and F(r.ms.time) != T:
            return res.fail('step-time', 'MacroStep.time is %r for a step called when the clock showed %r' % (r.ms.time, float(T)), **ctx)
        if [F(x) for x in during[-1:]] != [T]:
            return res.fail('step-time', "Interpreter.time was %r while 'step started' was being dispatched, the step time is %r" % (during[-1:], float(T)), **ctx)
        if [F(x) for x in started] != [T]:
            return res.fail('step-time', "'step started' meta-events carried time %r, step time is %r" % (started, float(T)), **ctx)
        if decimal:
            why = consistent(sp, sim, r, T)
            if why:
                return res.fail('predicate-not-a-function', why, **ctx)
            res.stats['decimal_steps_checked_for_consistency'] += 1
            continue
        # stamps valid while the guards / invariants of this step are evaluated
        entry = dict(r.entry_before)
        idle = dict(r.idle_before)
        nontriv = None
        guards_done = False
        for e in r.log:
            if e[0] == 'obs':
                if F(e[2]) != T:
                    return res.fail('time-variable', 'code %s saw time=%r during a step whose time is %r' % (e[1], e[2], float(T)), **ctx)
            elif e[0] == 'tguard':
                t = sp.trans[e[1]]
                v = check_pred(res, sp, 'guard of t%d' % t.i, t.src, t.tg_after, t.tg_idle, e[3], e[4], e[5], T, entry, idle, ctx)
                if v:
                    return res
                if (t.tg_after is not None and entry.get(t.src) != T) or (t.tg_idle is not None and idle.get(t.src) != T):
                    nontriv = (t.src, float(entry[t.src]), float(idle[t.src]))
            elif e[0] == 'tcond':
                if not guards_done:
                    guards_done = True
                    # invariants are evaluated at the end of the step: stamps as updated by this step
                    entry, idle = dict(sim.entry), dict(sim.idle)
                j = e[1]
                owner = next(s for s in sp.states.values() if any(c[0] == j for c in s.tinv))
                a, i = next((c[1], c[2]) for c in owner.tinv if c[0] == j)
                v = check_pred(res, sp, 'invariant of %s' % owner.name, owner.name, a, i, e[2], e[3], e[4], T, entry, idle, ctx)
                if v:
                    return res
                if (a is not None and entry.get(owner.name) != T) or (i is not None and idle.get(owner.name) != T):
                    nontriv = (owner.name, float(entry[owner.name]), float(idle[owner.name]))
        # after() in the postconditions of the states this step left, with the entry stamp valid at that moment
        if r.ms is not None:
            stamp = dict(r.entry_before)
            want_tp = []
            for m in r.ms.steps:
                for sname in m.exited_states:
                    for j, a in sp.states[sname].tpost:
                        want_tp.append((j, (T - stamp[sname]) >= F(a)))
                for sname in m.entered_states:
                    stamp[sname] = T
            got_tp = [(e[1], e[2]) for e in r.log if e[0] == 'tpost']
            bad_time = [e for e in r.log if e[0] == 'tpost' and F(e[3]) != T]
            if bad_time:
                return res.fail('time-variable', 'a state postcondition saw time=%r during a step whose time is %r' % (bad_time[0][3], float(T)), **ctx)
            if got_tp != want_tp:
                return res.fail('after', 'after() in the postconditions of the states left by this step evaluated to %r (condition id, value), '
                                'the entry stamps prescribe %r' % (got_tp, want_tp), **ctx)
            res.stats['after_in_state_postconditions_checked'] += len(want_tp)
            # after() in the postconditions of the transitions this step fired: about the source state, with the entry stamp it
            # had when the transition started
            stamp = dict(r.entry_before)
            want_tt = []
            for m in r.ms.steps:
                if m.transition is not None:
                    t = sp.trans[tid(m.transition)]
                    if t.tpost_after is not None:
                        want_tt.append((t.i, (T - stamp[t.src]) >= F(t.tpost_after)))
                for sname in m.entered_states:
                    stamp[sname] = T
            got_tt = [(e[1], e[2]) for e in r.log if e[0] == 'ttpost']
            if [e for e in r.log if e[0] == 'ttpost' and F(e[3]) != T]:
                return res.fail('time-variable', 'a transition postcondition saw another time than the step time %r' % float(T), **ctx)
            if got_tt != want_tt:
                return res.fail('after', 'after() in the postconditions of the transitions fired by this step evaluated to %r (transition, value), '
                                'the entry stamps of their source states prescribe %r' % (got_tt, want_tt), **ctx)
            res.stats['after_in_transition_postconditions_checked'] += len(want_tt)
            # idle() in the invariants of the transitions this step fired: the first of the two evaluations (before the action)
            # still sees the stamp the guard saw - the transition has not fired yet; the second one (after the action) is
            # not pinned down by the property
            stamp = dict(r.idle_before)
            got_ti = [e for e in r.log if e[0] == 'ttinv']
            k_ = 0
            for m in r.ms.steps:
                if m.transition is not None:
                    t = sp.trans[tid(m.transition)]
                    if t.tinv_idle is not None:
                        if k_ + 1 >= len(got_ti) or got_ti[k_][1] != t.i or got_ti[k_ + 1][1] != t.i:
                            return res.fail('idle', 'transition t%d fired but its invariant was not evaluated once before and once after the action: %r' % (t.i, got_ti), **ctx)
                        first = got_ti[k_]
                        want = (T - stamp[t.src]) >= F(t.tinv_idle)
                        if F(first[3]) != T:
                            return res.fail('time-variable', 'an invariant of t%d saw time=%r during a step whose time is %r' % (t.i, first[3], float(T)), **ctx)
                        if first[2] != want:
                            return res.fail('idle', 'invariant of t%d, evaluated before its action: idle(%r) = %r at time %r; %s last fired a transition / was entered at %r' % (
                                t.i, t.tinv_idle, first[2], float(T), t.src, float(stamp[t.src])), **ctx)
                        res.stats['idle_in_transition_invariant_checked'] += 1
                        k_ += 2
                    stamp[t.src] = T
                for sname in m.entered_states:
                    stamp[sname] = T
        if nontriv:
            res.nontrivial.add(fp((cfp, float(T), nontriv)))
            if res.sample is None:
                res.sample = ctx
        if r.ms is not None:
            for t in r.ms.transitions:
                if t.target is None:
                    res.stats['internal_transition_fired'] += 1
                elif t.target == t.source:
                    res.stats['self_loop_fired'] += 1
    res.stats['skew_runs' if skew else 'integer_tick_clock_beyond_2_53_runs' if bigint else 'decimal_time_runs' if decimal else 'probe_moved_runs'] += 1
    res.stats['runs_whose_chart_sends_events_with_delays'] += int(sending)
    res.stats['fault_clock_moved_inside_step'] += moves[0] if not skew else clock.reads
    res.sim_time = float(sim.now())
    return res


def consistent(sp, sim, r, T):
    """decimal mode: every evaluation of after(d0) / idle(d0) for one (state, stamp) in this step gave the same answer"""
    seen = {}

    def note(state, kind, stamp, value, where):
        seen.setdefault((state, kind, stamp), []).append((bool(value), where))
    entry, idle = dict(r.entry_before), dict(r.idle_before)
    for e in r.log:
        if e[0] == 'tguard':
            t = sp.trans[e[1]]
            if t.tg_after is not None:
                note(t.src, 'after', entry.get(t.src), e[3], 'guard of t%d' % t.i)
            if t.tg_idle is not None:
                note(t.src, 'idle', idle.get(t.src), e[4], 'guard of t%d' % t.i)
        elif e[0] == 'tcond':
            owner = next(s for s in sp.states.values() if any(c[0] == e[1] for c in s.tinv))
            a, i = next((c[1], c[2]) for c in owner.tinv if c[0] == e[1])
            if a is not None:
                note(owner.name, 'after', sim.entry.get(owner.name), e[2], 'invariant of ' + owner.name)
            if i is not None:
                note(owner.name, 'idle', sim.idle.get(owner.name), e[3], 'invariant of ' + owner.name)
    if r.ms is not None:
        est, ist = dict(r.entry_before), dict(r.idle_before)
        tp_log = [e for e in r.log if e[0] == 'tpost']
        ti_log = [e for e in r.log if e[0] == 'ttinv']
        kp = ki = 0
        for m in r.ms.steps:
            for sname in m.exited_states:
                for j, a in sp.states[sname].tpost:
                    if kp < len(tp_log) and tp_log[kp][1] == j:
                        note(sname, 'after', est.get(sname), tp_log[kp][2], 'postcondition of ' + sname)
                        kp += 1
            if m.transition is not None:
                t = sp.trans[tid(m.transition)]
                if t.tinv_idle is not None and ki + 1 < len(ti_log) and ti_log[ki][1] == t.i:
                    note(t.src, 'idle', ist.get(t.src), ti_log[ki][2], 'invariant of t%d before its action' % t.i)
                    ki += 2
                ist[t.src] = T
            for sname in m.entered_states:
                est[sname] = T
                ist[sname] = T
    for (state, kind, stamp), vals in sorted(seen.items(), key=repr):
        if stamp is not None and len({v for v, _ in vals}) > 1:
            return '%s() with the same argument, asked about %s (stamp %r) at step time %r, answered %s' % (
                kind, state, float(stamp), float(T), ['%s: %s' % (w, v) for v, w in vals][:4])
    return None


def check_pred(res, sp, what, state, a, i, got_after, got_idle, got_time, T, entry, idle, ctx):
    if F(got_time) != T:
        return res.fail('time-variable', '%s saw time=%r during a step whose time is %r' % (what, got_time, float(T)), **ctx)
    if a is not None:
        want = (T - entry[state]) >= F(a)
        res.stats['after_observed_' + str(want)] += 1
        if T - entry[state] == F(a):
            res.stats['after_exact_boundary'] += 1
        if got_after != want:
            return res.fail('after', '%s: after(%r) evaluated to %r at time %r, %s was last entered at %r' % (
                what, a, got_after, float(T), state, float(entry[state])), **ctx)
    if i is not None:
        want = (T - idle[state]) >= F(i)
        res.stats['idle_observed_' + str(want)] += 1
        if T - idle[state] == F(i):
            res.stats['idle_exact_boundary'] += 1
        if idle[state] != entry[state]:
            res.stats['idle_stamp_differs_from_entry_stamp'] += 1
        if got_idle != want:
            return res.fail('idle', '%s: idle(%r) evaluated to %r at time %r, %s was entered at %r and last fired a transition / was entered at %r' % (
                what, i, got_idle, float(T), state, float(entry[state]), float(idle[state])), **ctx)
    return None

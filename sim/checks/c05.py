"""C05 - event queues: one event per step, internal first, FIFO, delays respected (DESIGN.md section 4, C05)."""
from fractions import Fraction as F

from sim.chart import Cfg, swarm, gen_spec
from sim.engine import Result, Abandon, fp
from sim.semrun import Sim, TICK, materialise
from sim.checks import common

from sismic import exceptions as sx

ID = 'C05'
LEVEL = 'exploration'
BUDGET = {'quick': 20, 'thorough': 240}
STREAM_ORDER = ['ops', 'guards', 'moves', 'mat', 'chart', 'cfg']
RULE = ('well-formed chart drawn per run whose code sends events (with and without delay; in half of the runs it also notifies, in between its sends); the seeded scheduler interleaves 1-3 logical '
        'clients calling queue() - an Event instance, a name with keyword parameters, or both in one call - with delays from {none,0,1,2,2,5} (ties on purpose; in a third of the runs also -1 and -4: due since before it was queued), in a third of the runs the clock also moves while guards are evaluated, in a third clients and code also use events without any distinguishing parameter (an external and an internal one of the same name and delay compare equal), in a quarter a listener queues further events while it is told about a consumption, the statechart own sends, clock moves (0, exactly to the '
        'next due time, one tick short of it, far beyond) and execute_once; a two-queue reference model runs in lock-step and the recorded '
        'history is checked at the end after a drain (every uid consumed exactly once, never before its due time); non-trivial = a '
        'consuming step taken while >= 2 events were pending; distinct = distinct (chart, pending-queue snapshot relative to the step time)')
COMPONENTS = {'real': common.REAL, 'stub': common.STUB}
ASSUMPTIONS = common.ASSUME + ['which transitions fire is C01; here only whether an eventless transition fired is read off the returned step']
LEVEL_TEXT = ('seeded exploration of interleavings of queue()/send/clock/step with a reference queue model checked at every step and '
              'exactly-once / due-time checks over the whole history')
LEVEL_NOTE = 'trusted: sim.ref.QueueModel (25 lines); event identity through a unique uid parameter on every event'
TECHNIQUE = 'deterministic simulation: seeded interleaving of clients, sends, clock and steps; reference queue model + history check; shrinking; replay'


def run(ch, tier):
    res = Result()
    cfg = swarm(ch.s('cfg'), Cfg(sends=True, delays=True, eventless=True, neg_delays=ch.s('cfg').flag(1, 3), anon=ch.s('cfg').flag(1, 3), notify=ch.s('cfg').flag(1, 2)), tier)
    sp = gen_spec(ch.s('chart'), cfg)
    from sim.probes import SimClock
    # the interpreter may be created on a clock that is already running late, and events may be queued
    # (with delays) before its first step
    start = ch.s('cfg').pick([0.0, 0.0, 7.0, 100.5])
    sim = Sim(sp, statechart=materialise(sp, ch, res), clock=SimClock(start=start))
    if ch.s('cfg').flag(1, 3):
        # the clock also moves while a step is under way (whenever a guard is evaluated): what is due is decided by the step
        # time, not by what the clock shows later in the step
        mv = ch.s('moves')

        def on_probe(kind):
            if kind == 'guard':
                d = mv.pick([0, 0, 1, 2, 5])
                if d:
                    sim.clock.advance(d)
                    res.stats['fault_clock_moved_inside_step'] += 1
        sim.P.on_probe = on_probe
    pre_ops = ch.s('ops')
    for _ in range(pre_ops.int(0, 2)):
        nm0 = pre_ops.pick(['ea', 'eb', 'zz'])
        sim.queue(nm0, pre_ops.pick([None, 1, 2, 5]))
        res.stats['queued_before_first_step'] += 1
    cfp = fp(sp.fingerprint())
    ops = ch.s('ops')
    gs = ch.s('guards')
    names = (sorted({t.event for t in sp.trans if t.event}) or ['ea']) + ['zz']
    n = ops.int(5, 60 if tier == 'quick' else 120)
    hist = []
    if ch.s('cfg').flag(1, 4):
        # a listener that reacts to the consumption of an event by queueing another one (also one that is due earlier): it is
        # told once the event has been taken out of the queue, so the newcomer is simply one more pending event
        lq = ch.s('moves')

        def on_meta(me):
            if me.name == 'event consumed' and lq.flag(1, 3):
                d = lq.pick([None, 0, 1, -1, -4])
                u = sim.queue(lq.pick(names), d)
                hist.append(('queue', 'listener, while told about a consumption', u, d, float(sim.lastT)))
                res.stats['queued_by_a_listener_during_a_step'] += 1
        sim.it.attach(on_meta)

    def one_step(drain=False):
        truth = sim.draw_truth(gs, 4, 8) if not drain else {t.i: False for t in sp.trans if t.guard and t.event is None}
        pend = [(float(x[0] - sim.now()), x[3], q is sim.q.internal) for q in (sim.q.internal, sim.q.external) for x in q]
        npend = len(pend)
        r = sim.step(truth)
        res.stats['steps'] += 1
        if r.exc is not None:
            if r.sel is not None and r.sel.err and type(r.exc).__name__ == r.sel.err:
                return r
            if not isinstance(r.exc, sx.SismicError):
                raise r.exc         # not an error the statechart can cause: reported as library-exception
            raise Abandon('other: unexpected %s' % r.exc_name())
        ctx = dict(chart=sp.describe(), step=r.k, time=float(r.T), history=hist[-12:],
                   model_internal=[(float(a), u, nm) for a, _, u, nm in sim.q.internal][:6],
                   model_external=[(float(a), u, nm) for a, _, u, nm in sim.q.external][:6])
        eventless = r.ms is not None and any(t.event is None for t in r.ms.transitions)
        head = r.head
        if r.ms is not None and r.ms.event is not None:
            e = r.ms.event
            uid = r.consumed_uid
            info = sim.all_uids.get(r.consumed_key)
            if uid is None and getattr(e, 'data', None) is not None and 'uid' not in e.data:
                # an event without identity: all the model knows is which (class, name) was first in line
                if not r.consumed_head:
                    return res.fail('wrong-event', 'step at %s consumed %r; the queue discipline prescribes %s %s (due %s)' % (
                        float(r.T), e, 'internal' if r.head_internal else 'external', head and head[3], head and float(head[0])), **ctx) and r
                if eventless:
                    return res.fail('consumed-with-eventless', 'event consumed by a step that fired an eventless transition', **ctx) and r
                hist.append(('consume', None, e.name, float(r.T)))
                res.stats['anonymous_events_consumed'] += 1
                return r
            if info is None:
                return res.fail('unknown-event', 'step consumed %r which nobody queued' % e, **ctx) and r
            if info['consumed_at'] == 'twice':
                return res.fail('consumed-twice', 'event uid %s (%s) consumed a second time' % (uid, e.name), **ctx) and r
            if e.name != info['name']:
                return res.fail('event-changed', 'event uid %s queued as %s, consumed as %s' % (uid, info['name'], e.name), **ctx) and r
            if info['due'] > r.T:
                return res.fail('consumed-before-due', 'event uid %s due at %s consumed by a step at time %s' % (uid, float(info['due']), float(r.T)), **ctx) and r
            if eventless:
                return res.fail('consumed-with-eventless', 'event consumed by a step that fired an eventless transition', **ctx) and r
            if not r.consumed_head:
                return res.fail('wrong-event', 'step at %s consumed uid %s (%s, %s, due %s); the queue discipline prescribes uid %s (%s, %s, due %s)' % (
                    float(r.T), uid, e.name, 'internal' if info['internal'] else 'external', float(info['due']),
                    head and head[2], head and head[3],
                    head and ('internal' if r.head_internal else 'external'), head and float(head[0])), **ctx) and r
            hist.append(('consume', uid, e.name, float(r.T)))
            if npend >= 2:
                res.nontrivial.add(fp((cfp, sorted(pend))))
                res.stats['consumed_with_2plus_pending'] += 1
                dues = [p[0] for p in pend if p[0] <= 0]
                if any(p[2] for p in pend) and any(not p[2] for p in pend if p[0] <= 0):
                    res.stats['internal_and_external_both_due'] += 1
                if len([x for x in pend if x[0] == pend[0][0]]) >= 2:
                    res.stats['tie_on_due_time'] += 1
                if info['due'] == r.T and info['queued_at_step'] < r.k and info['due'] != 0:
                    res.stats['delayed_event_due_exactly_at_step_time'] += 1
        else:
            if head is not None and not eventless and not r.init:      # the initialisation step consumes nothing by design
                return res.fail('due-event-not-consumed', 'step at %s consumed nothing although uid %s (%s) was due since %s and no eventless '
                                'transition fired' % (float(r.T), head[2], head[3], float(head[0])), **ctx) and r
            if head is not None:
                res.stats['consumption_deferred_by_eventless'] += 1
        return r

    r = one_step()
    if res.violation:
        return res
    for _ in range(n):
        op = ops.weighted([('step', 5), ('queue', 5), ('advance', 3), ('queue2', 1)])
        if op == 'queue' and cfg.anon and ops.flag(1, 4):
            d = ops.pick([None, 1, 2])
            nm_ = ops.pick(names)
            sim.queue_anon(nm_, d)
            hist.append(('queue', 'anonymous', nm_, d, float(sim.lastT)))
            res.stats['anonymous_events_queued'] += 1
        elif op == 'queue':
            d = ops.pick([None, None, 0, 1, 2, 2, 5] + ([-1, -4] if cfg.neg_delays else []))
            client = ops.choice(3)
            meta = ops.flag(1, 6)       # now and then a MetaEvent instance: queue() files it with the external events
            uid = sim.queue(ops.pick(names), d, as_meta=meta)
            hist.append(('queue', 'client%d%s' % (client, ' (MetaEvent instance)' if meta else ''), uid, d, float(sim.lastT)))
            res.stats['meta_event_instances_queued'] += int(meta)
            if d:
                res.stats['delayed_external'] += 1
        elif op == 'queue2':
            d1, d2 = ops.pick([None, 0, 1, 2]), ops.pick([None, 0, 1, 2])
            n1, n2 = ops.pick(names), ops.pick(names)
            u1, u2 = sim.queue_pair(n1, d1, n2, d2, ops.flag(1, 2))
            hist.append(('queue', 'one call, two events', (u1, d1), (u2, d2), float(sim.lastT)))
            res.stats['calls_queueing_an_instance_and_a_name_together'] += 1
        elif op == 'advance':
            dues = sorted(x[0] for q in (sim.q.internal, sim.q.external) for x in q if x[0] > sim.now())
            kind = ops.weighted([('one', 2), ('zero', 1), ('to_next_due', 3), ('short_of_next_due', 2), ('beyond', 1)])
            if kind == 'one':
                d = F(1)
            elif kind == 'zero':
                d = F(0)
            elif kind == 'beyond':
                d = F(100)
            elif dues:
                d = dues[0] - sim.now() - (TICK if kind == 'short_of_next_due' else 0)
                res.stats['clock_' + kind] += 1
            else:
                d = TICK
            sim.advance(d)
            hist.append(('advance', float(d)))
        else:
            r = one_step()
            if res.violation:
                return res
            if r.sent:
                hist.append(('sent', r.sent))
                res.stats['internal_sent'] += len(r.sent)
    # drain: push the clock past every due time and step (guards false) until every event known so far
    # has been consumed.  A chart may legitimately never get there (unguarded eventless cycle, a send
    # loop whose internal events starve the external queue, a persistent NonDeterminismError): then the
    # exactly-once backstop is skipped; the per-step checks above have run on every step anyway.
    target = set(u for u, i in sim.all_uids.items() if i['consumed_at'] is None)
    complete = False
    for _ in range(60):
        if all(sim.all_uids[u]['consumed_at'] is not None for u in target):
            complete = True
            break
        sim.advance(F(1000))
        r = one_step(drain=True)
        if res.violation:
            return res
    if complete:
        res.stats['drain_complete'] += 1
        dup = [(u, i['name']) for u, i in sorted(sim.all_uids.items()) if i['consumed_at'] == 'twice']
        if dup:
            return res.fail('consumed-twice', 'events consumed twice: %s' % dup[:5], chart=sp.describe(), history=hist[-20:])
    else:
        res.stats['drain_incomplete_chart_never_quiesces'] += 1
    res.stats['events_total'] += len(sim.all_uids)
    res.sim_time = float(sim.now())
    if res.sample is None and res.nontrivial:
        res.sample = {'chart': sp.describe()[:12], 'history': hist[:25]}
    return res

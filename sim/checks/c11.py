"""C11 - YAML export/import round-trip is lossless (DESIGN.md section 4, C11)."""
import os
import shutil
import tempfile
from collections import Counter

from sim.chart import Cfg, swarm, gen_spec, build_api
from sim.engine import Result, Abandon, fp
from sim.semrun import Sim, standard_ops, replay_script
from sim.checks import common
from sim.checks.c09 import sig

from sismic import model
from sismic.exceptions import StatechartError
from sismic.io import export_to_yaml, import_from_yaml

ID = 'C11'
LEVEL = 'exploration'
BUDGET = {'quick': 20, 'thorough': 240}
BLOCK = 25
STREAM_ORDER = ['strings', 'ops', 'guards', 'chart', 'cfg']
RULE = ('mode S (2 of 3 runs): a valid chart is built through the API with all state kinds, contracts, integer priorities (high/low and others), now and then a transition with no field set at all, and '
        'names / events / code / description / preamble drawn from a YAML-hostile alphabet (indicators, quotes, #, ": ", leading "- " / "? ", '
        'unicode incl. U+0085/U+2028, tabs, multi-line, number / boolean / null look-alikes); export_to_yaml -> import_from_yaml through the text '
        'route and the filepath route (file in a directory owned by the run); field-by-field structural comparison and == of every state and '
        'transition. mode B: a generated probe chart is exported, re-imported and executed in lock-step with the original under a seeded '
        'script. non-trivial = a chart with >= 1 string containing a YAML-significant character (S) or >= 2 macro steps (B); distinct = '
        'distinct chart')
COMPONENTS = {'real': ['sismic.io.export_to_yaml / import_from_yaml / datadict', 'ruamel.yaml 0.19 (emitter and parser)', 'schema',
                       'sismic.model.*'] + common.REAL[:2],
              'stub': ['file system: a temporary directory owned by the run'] + common.STUB}
ASSUMPTIONS = ['code strings are never whitespace-only (not valid code; the importer maps them to nothing)',
               'absent and empty description / preamble / code are the same thing',
               'the structural half has no schedule or fault dimension: it is generated-document checking on the same engine']
LEVEL_TEXT = 'seeded exploration of charts with hostile strings (structural + ==) and lock-step execution of original vs re-import'
LEVEL_NOTE = 'trusted: ruamel.yaml parser for reading; the comparison code'
TECHNIQUE = 'deterministic simulation (lock-step original vs re-import under one seeded script) + generated hostile documents through text and file routes'

PIECES = ['a', 'b', 'k', ' ', ' ', ':', ': ', '#', ' #', '-', '- ', '?', '? ', '"', "'", '\n', '\t', '{', '}', '[', ']', ',', '&', '*', '!',
          '|', '>', '%', '@', '`', 'é', '日', '\\', '0', '1', '~', 'null', 'true', 'yes', 'no', '1.5', '1e3', '0x1f', '=', '<<',
          '\u0085', ' ', ' ', '﻿', '\x7f', ' ', '...', '---', 'x: y', "it's", '\r',
          '\n   \n', '\n\t\n', 'a\n    \nb']       # interior lines made of blanks only belong to the text
SIGNIFICANT = set(':#-?"\'\n\t{}[],&*!|>%@`\\~=<') | {'\u0085', ' ', ' ', '﻿', '\r'}


NEL_SUBSTITUTE = None      # set by the K3 classifier: U+0085 replaced by this character


def hostile(st, lo=1, hi=5, strip=False, nonblank=True):
    for _ in range(20):
        s = ''.join(st.pick(PIECES) for _ in range(st.int(lo, hi)))
        if NEL_SUBSTITUTE is not None:
            s = s.replace('\u0085', NEL_SUBSTITUTE)
        if strip:
            s = s.strip()
        if nonblank and not s.strip():
            continue
        if s:
            return s
    return 'a'


def build_hostile(st):
    """A valid chart (API) with hostile strings everywhere.  Returns (statechart, all strings used)."""
    used = []

    def S(**kw):
        s = hostile(st, **kw)
        used.append(s)
        return s

    def code():
        return S(hi=6, strip=True) if st.flag(1, 2) else None

    def conds(o):
        for lst in (o.preconditions, o.postconditions, o.invariants):
            for _ in range(st.weighted([(0, 5), (1, 2), (2, 1)])):
                lst.append(S(strip=True))

    names = set()

    def name():
        for _ in range(50):
            n = S(hi=4)
            if n not in names:
                names.add(n)
                return n
        n = 'n%d' % len(names)
        names.add(n)
        return n

    sc = model.Statechart(S(), description=S(hi=8) if st.flag(1, 2) else None, preamble=S(hi=8) if st.flag(1, 2) else None)
    root = name()
    kids = {}
    rk = st.pick(['compound', 'compound', 'orthogonal', 'basic'])
    mk = {'compound': model.CompoundState, 'orthogonal': model.OrthogonalState, 'basic': model.BasicState}
    o = mk[rk](root, on_entry=code(), on_exit=code())
    conds(o)
    sc.add_state(o, None)
    composites = [root] if rk != 'basic' else []
    kindof = {root: rk}
    for _ in range(st.int(0, 7)):
        if not composites:
            break
        p = st.pick(composites)
        pk = kindof[p]
        opts = ['basic', 'compound', 'orthogonal']
        if pk == 'compound':
            opts += ['final', 'shallow', 'deep']
        k = st.pick(opts)
        n = name()
        if k in mk:
            o = mk[k](n, on_entry=code(), on_exit=code())
        elif k == 'final':
            o = model.FinalState(n, on_entry=code(), on_exit=code())
        elif k == 'shallow':
            o = model.ShallowHistoryState(n, on_entry=code(), on_exit=code())
        else:
            o = model.DeepHistoryState(n, on_entry=code(), on_exit=code())
        conds(o)
        sc.add_state(o, p)
        kindof[n] = k
        kids.setdefault(p, []).append(n)
        if k in ('compound', 'orthogonal'):
            composites.append(n)
    # composite states need children to survive the round trip as composites: give childless ones a basic child
    for c in list(composites):
        if not kids.get(c):
            n = name()
            sc.add_state(model.BasicState(n), c)
            kindof[n] = 'basic'
            kids.setdefault(c, []).append(n)
    for c in composites:
        if kindof[c] == 'compound':
            plain = [k for k in kids[c] if kindof[k] not in ('shallow', 'deep')]
            if plain and st.flag(3, 4):
                sc.state_for(c).initial = st.pick(plain)
            for h in kids[c]:
                if kindof[h] in ('shallow', 'deep') and plain and st.flag(3, 4):
                    sc.state_for(h).memory = st.pick(plain)
    srcs = [n for n in kindof if kindof[n] in ('basic', 'compound', 'orthogonal')]
    allnames = list(kindof)
    for _ in range(st.int(0, 6)):
        t = model.Transition(st.pick(srcs), st.pick(allnames) if st.flag(3, 4) else None,
                             event=S(hi=3, strip=True) if st.flag(2, 3) else None,
                             guard=code(), action=code(), priority=st.pick([0, 0, 1, -1, 2, -3, 10]))
        if t.target is None and t.event is None and t.guard is None:
            t.guard = S(strip=True)
        conds(t)
        sc.add_transition(t)
    if srcs and st.flag(1, 3):
        # a transition with nothing at all: internal, eventless, no guard, no action, default priority, no contract
        sc.add_transition(model.Transition(st.pick(srcs)))
    sc.validate()
    return sc, used


def norm(s):
    return s.strip() if isinstance(s, str) and s.strip() else (None if s is None or not s.strip() else s)


def tkey(t):
    return (t.source, t.target, t.event, norm(t.guard), norm(t.action), t.priority,
            tuple(map(norm, t.preconditions)), tuple(map(norm, t.postconditions)), tuple(map(norm, t.invariants)))


def compare(sc, sc2, eq_clause=True):
    """None or (class, message)"""
    for f in ('name', 'description', 'preamble'):
        a, b = getattr(sc, f), getattr(sc2, f)
        if (a or None) != (b or None):
            return ('field-lost', 'statechart %s: %r exported, %r re-imported' % (f, a, b))
    if sc.states != sc2.states:
        return ('states-differ', 'state names %r re-imported as %r' % (sc.states, sc2.states))
    if sc.root != sc2.root:
        return ('states-differ', 'root %r re-imported as %r' % (sc.root, sc2.root))
    for n in sc.states:
        a, b = sc.state_for(n), sc2.state_for(n)
        if type(a) is not type(b):
            return ('kind-changed', 'state %r is a %s, re-imported as %s' % (n, type(a).__name__, type(b).__name__))
        if sc.parent_for(n) != sc2.parent_for(n):
            return ('hierarchy-changed', 'parent of %r: %r -> %r' % (n, sc.parent_for(n), sc2.parent_for(n)))
        for f in ('on_entry', 'on_exit'):
            if norm(getattr(a, f, None)) != norm(getattr(b, f, None)):
                return ('code-changed', 'state %r %s: %r -> %r' % (n, f, getattr(a, f, None), getattr(b, f, None)))
        for f in ('initial', 'memory'):
            if getattr(a, f, None) != getattr(b, f, None):
                return ('reference-changed', 'state %r %s: %r -> %r' % (n, f, getattr(a, f, None), getattr(b, f, None)))
        for f in ('preconditions', 'postconditions', 'invariants'):
            if list(map(norm, getattr(a, f))) != list(map(norm, getattr(b, f))):
                return ('contract-changed', 'state %r %s: %r -> %r' % (n, f, getattr(a, f), getattr(b, f)))
    if Counter(map(tkey, sc.transitions)) != Counter(map(tkey, sc2.transitions)):
        d1 = Counter(map(tkey, sc.transitions)) - Counter(map(tkey, sc2.transitions))
        d2 = Counter(map(tkey, sc2.transitions)) - Counter(map(tkey, sc.transitions))
        return ('transitions-differ', 'transitions only in the original: %r; only in the re-import: %r' % (list(d1)[:2], list(d2)[:2]))
    if eq_clause:
        for n in sc.states:
            if not (sc.state_for(n) == sc2.state_for(n)):
                return ('not-equal', 'state %r != its re-import although every field is equal' % n)
        m = list(sc2.transitions)
        for t in sc.transitions:
            hit = next((u for u in m if tkey(u) == tkey(t)), None)
            if hit is None or not (t == hit):
                return ('not-equal', 'transition %r != its re-import although every field is equal' % t)
            m.remove(hit)
    return None


def roundtrip(sc, route, tmpdir):
    if route == 'text':
        return import_from_yaml(export_to_yaml(sc)), None
    path = os.path.join(tmpdir, 'chart.yaml')
    text = export_to_yaml(sc, filepath=path)
    with open(path, encoding='utf-8') as f:
        on_disk = f.read()
    return import_from_yaml(filepath=path), (text, on_disk)


def run(ch, tier):
    res = Result()
    mode = ch.s('cfg').weighted([('S', 2), ('B', 1)])
    tmpdir = tempfile.mkdtemp(prefix='sim-c11-')
    try:
        if mode == 'S':
            return run_structural(ch, tier, res, tmpdir)
        return run_behavioural(ch, tier, res, tmpdir)
    finally:
        shutil.rmtree(tmpdir, ignore_errors=True)


def run_structural(ch, tier, res, tmpdir):
    st = ch.s('strings')
    sc, used = build_hostile(st)
    eq_ok = all(s == s.strip() for s in used)
    for route in ('text', 'file'):
        ctx = dict(route=route, strings=[repr(s) for s in used], yaml=export_to_yaml(sc)[:1500])
        try:
            sc2, extra = roundtrip(sc, route, tmpdir)
        except StatechartError as e:
            return res.fail('reimport-rejected', 'import_from_yaml rejects the exported document: %s / %s' % (e, repr(e.__cause__)[:120]), **ctx)
        except Exception as e:
            return res.fail('reimport-failed', 'import_from_yaml(export_to_yaml(sc)) raised %s: %s' % (type(e).__name__, str(e)[:160].replace('\n', ' ')), **ctx)
        if extra is not None and extra[0] != extra[1]:
            return res.fail('file-differs', 'the file written by export_to_yaml differs from the returned text', **ctx)
        v = compare(sc, sc2, eq_clause=True)
        if v:
            return res.fail(v[0], v[1], **ctx)
        res.stats['roundtrips_' + route] += 1
    if any(set(s) & SIGNIFICANT for s in used):
        res.nontrivial.add(fp([repr(s) for s in used]))
        res.sample = {'strings': [repr(s) for s in used][:12]}
    return res


def run_behavioural(ch, tier, res, tmpdir):
    cfg = swarm(ch.s('cfg'), Cfg(sends=True, notify=True, delays=True, bump=True, contracts=True), tier)
    if ch.s('cfg').flag(1, 3):
        cfg.history = cfg.force_history = True
        cfg.max_states = max(cfg.max_states, 8)
    sp = gen_spec(ch.s('chart'), cfg)
    sc = build_api(sp)
    a = Sim(sp, statechart=sc, ignore_contract=False)
    outs = []
    for r in standard_ops(a, ch, tier, delays=True, hi=20 if tier == 'quick' else 50):
        outs.append((sig(r.ms), r.exc_name(), sorted(r.post), r.ctx_after, [e for e in r.log if e[0] != 'guard']))
    route = ch.s('cfg').pick(['text', 'file'])
    ctx = dict(chart=sp.describe(), route=route)
    try:
        sc2, _ = roundtrip(sc, route, tmpdir)
    except Exception as e:
        return res.fail('reimport-failed', 'import_from_yaml(export_to_yaml(sc)) raised %s: %s' % (type(e).__name__, str(e)[:160].replace('\n', ' ')),
                        yaml=export_to_yaml(sc)[:1500], **ctx)
    v = compare(sc, sc2)
    if v:
        return res.fail(v[0], v[1], **ctx)
    b = Sim(sp, statechart=sc2, ignore_contract=False)
    for i, r in enumerate(replay_script(b, a.script)):
        got = (sig(r.ms), r.exc_name(), sorted(r.post), r.ctx_after, [e for e in r.log if e[0] != 'guard'])
        if got != outs[i]:
            fields = ['macro step', 'exception', 'configuration', 'context v', 'executed code']
            f, x, y = [(f, x, y) for f, x, y in zip(fields, got, outs[i]) if x != y][0]
            return res.fail('behaviour-differs', 'step %d: %s of the re-imported chart is %r, original %r' % (i, f, x, y), **ctx)
    res.stats['lockstep_runs'] += 1
    if len([o for o in outs if o[0] is not None]) >= 2:
        res.nontrivial.add(fp((sp.fingerprint(), [repr(o) for o in a.script])))
        if res.sample is None:
            res.sample = {'chart': sp.describe()[:12], 'script': [repr(o)[:60] for o in a.script][:10]}
    res.sim_time = float(a.now())
    return res


def classify(res, record, tier):
    """Known finding K3-nel: the violation is a string containing U+0085 (NEL) that comes back with the
    NEL folded into a blank / line break, and it disappears when NEL is replaced by another non-ASCII
    character in the very same chart."""
    global NEL_SUBSTITUTE
    from sim.engine import Choices
    if res.violation['cls'] in ('not-equal', 'behaviour-differs', 'file-differs'):
        return None
    strings = (res.violation.get('explained') or {}).get('strings') or []
    if '\\x85' not in repr(res.violation['msg']) and not any('\\x85' in s for s in strings):
        return None
    NEL_SUBSTITUTE = '\u00e9'
    try:
        res2 = run(Choices(record=record), tier)
    finally:
        NEL_SUBSTITUTE = None
    return 'K3-nel' if res2.violation is None else None

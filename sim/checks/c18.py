"""C18 - a pickled or deep-copied interpreter continues exactly like the original (DESIGN.md section 4, C18)."""
import copy
import os
import pickle
import warnings

from sim.chart import Cfg, swarm, gen_spec, build_api, cond_code
from sim.engine import Result, Abandon, fp
from sim.probes import Probe, SimClock
from sim.checks import common
from sim.checks.c09 import sig

from sismic import exceptions as sx
from sismic.interpreter import Interpreter
from sismic.clock import SimulatedClock
from sismic.clock import clock as clockmod
from sismic.model import Event, Statechart, CompoundState, BasicState, FinalState, Transition
from sismic.model.events import DelayedEvent

ID = 'C18'
LEVEL = 'fault_enumeration'
RUN_LIMIT_CPU_S = 600     # one run enumerates hundreds of fault positions in the thorough tier
BUDGET = {'quick': 40, 'thorough': 300}
BLOCK = 8
STREAM_ORDER = ['ops', 'guards', 'faults', 'chart', 'cfg']
RULE = ('well-formed chart with contracts reading __old__, history states, sends and delayed events; a seeded script of queue (with '
        'delays) / clock advance / execute_once with drawn guard outcomes and some contract conditions made false; in a third of the runs a property statechart that reads its synchronised clock is bound and is part of the snapshot; in a third of the runs guards log after() and idle(); in a third some sent events carry the list of the context itself as a parameter; in a third the interpreter is bound to a method of a component object that is also reachable from its context; in a quarter the context holds a counter named __n__ that entry code increments; one run in six also snapshots a small counter chart that starts with an empty context (no preamble, no initial context; its contracts ask __old__ whether a variable existed); a quarter of the delayed events are queued through the deprecated DelayedEvent class, whose delay attribute the code reads when it looks at the event; in a quarter of the runs the clock is a started sismic SimulatedClock (speed 1, 2 or 1/2) fed by a scripted wall time. The "crash" is a '
        'snapshot (pickle.dumps+loads, and copy.deepcopy) taken at a macro-step boundary: at EVERY boundary b of the script (thorough) or 6 '
        'drawn boundaries (quick), and a second time a few steps later (restore, continue, crash again). The restored interpreter and the '
        'original are continued in lock-step and both must reproduce the undisturbed control run: macro steps, configurations, context, '
        'executed code with the __old__ values seen by conditions, exceptions. non-trivial = one (boundary, snapshot kind) whose '
        'continuation has >= 1 macro step. After the batch the first 150 (quick) / 1500 (thorough) runs are done once more across processes: one process (PYTHONHASHSEED=1) runs the first half of the script and writes the pickle, another one (PYTHONHASHSEED=2) restores it and continues against its own control run; distinct = distinct (chart, script, boundary, kind)')
COMPONENTS = {'real': common.REAL + ['pickle / copy.deepcopy of Interpreter, PythonEvaluator, Statechart, events', 'sismic.clock.SimulatedClock (a quarter of the runs; its wall-time source is scripted per interpreter)', 'sismic.clock.SynchronizedClock and a bound property statechart (a third of the runs)'], 'stub': common.STUB}
ASSUMPTIONS = common.ASSUME + ['snapshots are taken between calls to execute_once, never inside one',
                               'after a ContractError the run ends (the interpreter is documented to be in an undefined state)']
LEVEL_TEXT = ('crash/restart fault enumeration: for each sampled (chart, script) every macro-step boundary is a crash point in the thorough '
              'tier; the oracle is the undisturbed control run')
LEVEL_NOTE = 'trusted: the control run as oracle; the signature function for macro steps and contexts'
TECHNIQUE = 'deterministic simulation with fault injection: crash (pickle/deepcopy) at every macro-step boundary, lock-step against an undisturbed control'


def _timewire():
    """property statechart that turns final at the first monitored step whose time (read from the property chart's own,
    synchronised clock) has reached K"""
    sc = Statechart('timewire')
    sc.add_state(CompoundState('r', initial='s'), None)
    sc.add_state(BasicState('s'), 'r')
    sc.add_state(FinalState('f'), 'r')
    sc.add_transition(Transition('s', 'f', event='step started', guard='time >= K'))
    return sc


TIMEWIRE = _timewire()


def _mk_property(sc, clock, K=0):
    return Interpreter(sc, clock=clock, initial_context={'K': K})


class Sink:
    """a component the interpreter is bound to through one of its methods (`it.bind(sink.deliver)`); it is also reachable from
    the context, so a snapshot of the interpreter carries it along - and the copy delivers to the copy"""

    def __init__(self):
        self.got = []

    def deliver(self, event):
        self.got.append((event.name, event.data.get('uid')))


CUR = [None]     # the player whose wall clock the patched sismic.clock.clock.time() reads


def _wall():
    return CUR[0].wall


class Player:
    """applies script operations to one interpreter and renders what happened"""

    def __init__(self, it, wall=None):
        self.it = it
        self.dead = False
        self.wall = wall        # not None: the interpreter runs on a started sismic SimulatedClock fed by this scripted wall time

    @property
    def P(self):
        return self.it.context['P']

    def play(self, op):
        it = self.it
        CUR[0] = self
        if op[0] == 'advance' and self.wall is not None:
            self.wall += op[1]
            return None
        if op[0] == 'queue':
            kw = {'uid': op[3]}
            if op[2] is not None and len(op) > 4 and op[4]:
                # the deprecated (still supported) class for delayed events
                with warnings.catch_warnings():
                    warnings.simplefilter('ignore')
                    it.queue(DelayedEvent(op[1], op[2], **kw))
                return None
            if op[2] is not None:
                kw['delay'] = op[2]
            it.queue(Event(op[1], **kw))
            return None
        if op[0] == 'advance':
            it.clock.advance(op[1])
            return None
        P = self.P
        P.truth = dict(op[1])
        mark = len(P.log)
        try:
            ms = it.execute_once()
            exc = None
        except sx.ContractError as e:
            ms, exc = None, (type(e).__name__, str(e.condition), repr(e.obj))
            self.dead = True
        except (sx.NonDeterminismError, sx.ConflictingTransitionsError) as e:
            ms, exc = None, (type(e).__name__,)
        except sx.PropertyStatechartError:
            ms, exc = None, ('PropertyStatechartError',)
            self.dead = True
        except Exception as e:
            ms, exc = None, (type(e).__name__, str(e)[:120])
            self.dead = True
        ctx = (it.context.get('v'), it.context.get('z'), len(it.context.get('w', ())), len(it.context.get('u', [[]])[0]),
               getattr(it.context.get('box'), 'n', None), len(it.context['SINK'].got) if 'SINK' in it.context else None, it.context.get('__n__'))
        return (sig(ms), it.configuration, ctx, exc, P.log[mark:], it.time, it.final)


def fresh(sp, cond_truth, echoes=(), watch=None, realclock=None, sink=False, dunder=()):
    P = Probe()
    P.cond_truth = dict(cond_truth)
    sc = build_api(sp)
    for name, attr, text in echoes:
        setattr(sc.state_for(name), attr, text)
    pl = Player(None, wall=1000.0 if realclock else None)
    CUR[0] = pl
    if realclock:
        clock = SimulatedClock()
        clock.speed = realclock
        clock.start()
    else:
        clock = SimClock()
    ictx = {'P': P}
    if sink:
        ictx['SINK'] = Sink()
    if dunder:
        # a context variable whose name starts with two underscores, counted up by the entry code of some states
        ictx['__n__'] = 0
        for name in dunder:
            st_ = sc.state_for(name)
            st_.on_entry = (st_.on_entry or 'pass') + '\n__n__ = __n__ + 1'
    it = Interpreter(sc, clock=clock, initial_context=ictx, ignore_contract=False)
    if sink:
        it.bind(ictx['SINK'].deliver)
    pl.it = it
    if watch is not None:
        import functools
        it.bind_property_statechart(TIMEWIRE, interpreter_klass=functools.partial(_mk_property, K=watch))
    return pl


PROTOCOL = [None]


def snapshot(player, kind):
    CUR[0] = player
    if kind == 'pickle':
        it2 = pickle.loads(pickle.dumps(player.it, protocol=PROTOCOL[0]))
    else:
        it2 = copy.deepcopy(player.it)
    return Player(it2, wall=player.wall)


def run(ch, tier):
    saved = clockmod.time
    clockmod.time = _wall
    try:
        return _run(ch, tier)
    finally:
        clockmod.time = saved
        CUR[0] = None


def prepare(ch, tier, res):
    """the drawn chart, the script and the undisturbed control run (None if the run has nothing to snapshot)"""
    cfg = swarm(ch.s('cfg'), Cfg(contracts=True, bump=True, sends=True, delays=True, history=True), tier)
    if ch.s('cfg').flag(1, 2):      # history gadgets: the remembered sub-configuration is part of the durable state
        cfg.history = cfg.force_history = True
        cfg.max_states = max(cfg.max_states, 8)
    if ch.s('cfg').flag(1, 3):
        # guards that log after() / idle(): entry and idle stamps (which differ once a state fired an internal transition) are
        # part of what a snapshot has to carry
        cfg.time_guards = cfg.internal = True
    cfg.payload = ch.s('cfg').flag(1, 3)     # pending events that carry a mutable object of the context
    sp = gen_spec(ch.s('chart'), cfg)
    ops = ch.s('ops')
    gs = ch.s('guards')
    fs = ch.s('faults')
    names = (sorted({t.event for t in sp.trans if t.event}) or ['ea']) + ['zz']
    cond_truth = {j: False for j in range(sp.nconds) if fs.choice(40) == 1}
    # the very same source text used once as a statement (entry/exit code) and once as a condition
    # (a state precondition): evaluators cache compiled code by text, separately per mode
    pres = [cond_code(j, 'pre', False, True, st_.name) for st_ in sp.states.values() for j in st_.pre]
    echoes = []
    if pres:
        for name in sp.states:
            if fs.choice(6) == 1:
                echoes.append((name, fs.pick(['on_entry', 'on_exit']), fs.pick(pres)))
    # in a third of the runs a property statechart is bound that turns final once its own (synchronised) clock reaches K:
    # the snapshot carries it along, and the copy must follow the copy
    watch = fs.pick([1, 2, 5, 8, 12]) if fs.flag(1, 3) else None
    if watch is not None:
        res.stats['runs_with_a_bound_time_reading_property_statechart'] += 1
    # in a quarter of the runs the interpreter runs on sismic's own SimulatedClock, started, at a drawn speed, fed by a wall
    # time the simulator scripts per interpreter (a snapshot inherits the wall time of the interpreter it was taken from)
    realclock = fs.pick([1, 2, 0.5]) if fs.flag(1, 4) else None
    if realclock:
        res.stats['runs_on_a_running_SimulatedClock'] += 1
    # ---------------- control run; the script is drawn while it executes
    # in a third of the runs the interpreter is bound to a component object (through one of its methods) that the snapshot
    # has to carry along
    sink = fs.flag(1, 3)
    if sink:
        res.stats['runs_bound_to_a_component_object'] += 1
    echoed = {e[0] for e in echoes}
    dunder = tuple(n_ for n_ in sp.states if n_ not in echoed and fs.flag(1, 2)) if fs.flag(1, 4) else ()
    if dunder:
        res.stats['runs_with_a_double_underscore_context_variable'] += 1
    control = fresh(sp, cond_truth, echoes, watch, realclock, sink, dunder)
    script, outs = [], []
    n = ops.int(4, 25 if tier == 'quick' else 40)
    uid = 0
    for k in range(n + 1):
        kind = 'step' if k == 0 else ops.weighted([('step', 5), ('queue', 4), ('advance', 2)])
        if kind == 'queue':
            uid += 1
            live = sorted({t.event for t in sp.trans if t.event and t.src in set(control.it.configuration)})
            op = ('queue', ops.pick(live) if live and ops.flag(3, 4) else ops.pick(names), ops.pick([None, None, 0, 1, 2, 5]), uid)
            if op[2] is not None and ops.flag(1, 4):
                op = op + (True,)
                res.stats['events_queued_as_deprecated_DelayedEvent'] += 1
        elif kind == 'advance':
            op = ('advance', ops.pick([1, 0, 2, 5, 0.5]))
        else:
            conf = set(control.it.configuration)
            op = ('step', {t.i: gs.flag(5, 8) for t in sp.trans if t.guard and t.src in conf})
        script.append(op)
        outs.append(control.play(op))
        res.stats['steps'] += 1 if kind == 'step' else 0
        if control.dead:
            if outs[-1][3][0] not in ('PreconditionError', 'PostconditionError', 'InvariantError', 'PropertyStatechartError'):
                raise Abandon('other: unexpected %s in the control run' % outs[-1][3][0])
            res.stats['control_ended_by_property_statechart' if outs[-1][3][0] == 'PropertyStatechartError' else 'control_ended_by_contract_error'] += 1
            break
    return dict(sp=sp, cond_truth=cond_truth, echoes=echoes, watch=watch, realclock=realclock, script=script, outs=outs, fs=fs,
                control=control, sink=sink, dunder=dunder)


def _run(ch, tier):
    res = Result()
    g = prepare(ch, tier, res)
    sp, cond_truth, echoes, watch, realclock = g['sp'], g['cond_truth'], g['echoes'], g['watch'], g['realclock']
    script, outs, fs, control, sink, dunder = g['script'], g['outs'], g['fs'], g['control'], g['sink'], g['dunder']
    PROTOCOL[0] = fs.pick([None, 2, 3, 4, 5, 0])
    bounds = list(range(1, len(script)))     # snapshot taken before script[b]
    if not bounds:
        return res
    if tier != 'thorough' and len(bounds) > 6:
        bounds = sorted(set(bounds[fs.choice(len(bounds))] for _ in range(6)))
    else:
        res.stats['runs_with_all_boundaries_enumerated'] += 1
    cfp = fp((sp.fingerprint(), [repr(o) for o in script]))
    for b in bounds:
        for kind in ('pickle', 'deepcopy'):
            orig = fresh(sp, cond_truth, echoes, watch, realclock, sink, dunder)
            for i in range(b):
                orig.play(script[i])
            try:
                rest = snapshot(orig, kind)
            except Exception as e:
                return res.fail('snapshot-failed', '%s of the interpreter raised %s: %s' % (kind, type(e).__name__, str(e)[:100]),
                                chart=sp.describe(), boundary=b)
            res.stats['fault_crash_restore_' + kind] += 1
            again = None if len(script) - b < 3 else b + 1 + fs.choice(len(script) - b - 1)
            macro = 0
            # not in lock-step: the restored interpreter first runs alone to the end of the script, then the original
            # does (in a drawn order) - two live interpreters that share anything would disturb each other
            parties = [('restored', rest), ('original', orig)]
            if fs.flag(1, 2):
                parties.reverse()
            for who, pl in parties:
              for i in range(b, len(script)):
                if again == i and who == 'restored':
                    try:
                        pl = snapshot(pl, kind)
                    except Exception as e:
                        return res.fail('snapshot-failed', 'second %s raised %s: %s' % (kind, type(e).__name__, str(e)[:100]),
                                        chart=sp.describe(), boundary=b)
                    res.stats['fault_second_crash_' + kind] += 1
                want = outs[i]
                if True:
                    got = pl.play(script[i])
                    if got != want:
                        fields = ['macro step', 'configuration', 'context (v, z, len(w))', 'exception', 'executed code (cond entries: id, v, __old__.v, event, n)',
                                  'time', 'final']
                        d = [(f, x, y) for f, x, y in zip(fields, got or (), want or ()) if x != y]
                        f, x, y = d[0] if d else ('result', got, want)
                        return res.fail('%s-diverges' % who, 'snapshot by %s before operation %d; at operation %d (%s) the %s interpreter '
                                        'differs from the undisturbed control in %s: %r, control: %r' % (
                                            kind, b, i, script[i][0], who, f, x, y),
                                        chart=sp.describe(), script=[repr(o)[:70] for o in script], boundary=b, kind=kind,
                                        second_snapshot_before=again)
                if want is not None and want[0] is not None:
                    macro += 1
                if pl.dead:
                    break
            if macro:
                res.nontrivial.add(fp((cfp, b, kind)))
                if any(e[0] == 'cond' and e[3] is not None for o in outs[b:] if o for e in o[4]):
                    res.stats['continuation_evaluated_old'] += 1
                if echoes:
                    res.stats['runs_with_text_shared_by_statement_and_condition'] += 0 if b != bounds[0] or kind != 'pickle' else 1
                if res.sample is None:
                    res.sample = {'chart': sp.describe()[:14], 'script': [repr(o)[:70] for o in script][:14], 'boundary': b, 'kind': kind}
    if fs.flag(1, 6):
        bad = bare_case(fs, res)
        if bad:
            return res.fail('restored-diverges', bad, chart='counter chart without preamble or initial context')
    res.sim_time = float(control.it.time)
    return res


def _bare_chart():
    """a statechart that starts with an empty context: no preamble, no initial context; its only variable is created by an action
    (setdefault), and the contracts of its states ask whether it existed when the state was entered"""
    sc = Statechart('counter')
    sc.add_state(CompoundState('r', initial='a'), None)
    for n in ('a', 'b'):
        st_ = BasicState(n)
        st_.invariants.append("'n' not in __old__ or __old__['n'] <= n")
        st_.postconditions.append("('n' in __old__) or n >= 1")
        sc.add_state(st_, 'r')
        sc.add_transition(Transition(n, None, event='e', action="n = setdefault('n', 0) + 1"))
    sc.add_transition(Transition('a', 'b', event='x'))
    sc.add_transition(Transition('b', 'a', event='x'))
    return sc


BARE = _bare_chart()


def bare_case(fs, res):
    """snapshot of an interpreter whose context was empty when its active states were entered"""
    script = [fs.pick(['e', 'e', 'x']) for _ in range(fs.int(2, 7))]
    b = fs.choice(len(script))
    kind = fs.pick(['pickle', 'deepcopy'])

    def play(it, names):
        out = []
        for n in names:
            it.queue(n)
            try:
                ms = it.execute_once()
                out.append((repr(ms), it.configuration, dict(it.context)))
            except Exception as e:
                out.append((type(e).__name__, str(e)[:100]))
                break
        return out
    orig = Interpreter(BARE, ignore_contract=False)
    orig.execute_once()
    play(orig, script[:b])
    it2 = pickle.loads(pickle.dumps(orig, protocol=PROTOCOL[0])) if kind == 'pickle' else copy.deepcopy(orig)
    res.stats['fault_crash_restore_with_an_empty_entry_context'] += 1
    x, y = play(it2, script[b:]), play(orig, script[b:])
    if x != y:
        i = next((i for i, (p_, q_) in enumerate(zip(x, y)) if p_ != q_), 0)
        return 'snapshot by %s after %r of the counter chart; continuing with %r the restored interpreter gives %r, the original %r' % (
            kind, script[:b], script[b:], x[i] if i < len(x) else None, y[i] if i < len(y) else None)
    return None


# ----------------------------------------------------------------------------- restore in another process

def _xp_case(tier, batch_seed, i):
    from sim.engine import Choices, seed_for
    ch = Choices(seed=seed_for(ID, batch_seed, i))
    res = Result()
    try:
        g = prepare(ch, tier, res)
    except Abandon:
        return None
    if len(g['script']) < 3:
        return None
    g['b'] = max(1, len(g['script']) // 2)
    return g


def xp_child(argv):
    """dump: run the first half of every case and write the pickled interpreter; load: restore it (in this other process,
    under another string-hash seed) and continue against this process' own undisturbed control run"""
    import json
    mode, tier, batch_seed, n, outdir = argv[0], argv[1], int(argv[2]), int(argv[3]), argv[4]
    only = int(argv[5]) if len(argv) > 5 else None
    saved = clockmod.time
    clockmod.time = _wall
    try:
        for i in ([only] if only is not None else range(n)):
            g = _xp_case(tier, batch_seed, i)
            if g is None:
                continue
            path = os.path.join(outdir, '%d.pkl' % i)
            if mode == 'dump':
                orig = fresh(g['sp'], g['cond_truth'], g['echoes'], g['watch'], g['realclock'], g['sink'], g['dunder'])
                for k in range(g['b']):
                    orig.play(g['script'][k])
                CUR[0] = orig
                with open(path, 'wb') as f:
                    pickle.dump((orig.it, orig.wall), f)
                continue
            if not os.path.exists(path):
                continue
            with open(path, 'rb') as f:
                try:
                    it2, wall = pickle.load(f)
                except Exception as e:
                    print('XP %d DIFF %s' % (i, json.dumps('pickle.load in another process raised %s: %s' % (type(e).__name__, str(e)[:100]))))
                    continue
            pl = Player(it2, wall=wall)
            verdict = 'ok'
            for k in range(g['b'], len(g['script'])):
                got = pl.play(g['script'][k])
                want = g['outs'][k]
                if got != want:
                    fields = ['macro step', 'configuration', 'context', 'exception', 'executed code', 'time', 'final']
                    d = [(f_, x, y) for f_, x, y in zip(fields, got or (), want or ()) if x != y]
                    f_, x, y = d[0] if d else ('result', got, want)
                    verdict = 'DIFF ' + json.dumps('snapshot by pickle before operation %d, restored in another process; at operation %d (%s) '
                                                   'the restored interpreter differs from the undisturbed control in %s: %r, control: %r' % (
                                                       g['b'], k, g['script'][k][0], f_, x, y))
                    break
                if pl.dead:
                    break
            print('XP %d %s' % (i, verdict))
    finally:
        clockmod.time = saved
        CUR[0] = None
    return 0


def _xp_spawn(hashseed, mode, tier, batch_seed, n, outdir, only=None):
    import subprocess
    import sys
    from sim.engine import VERIF
    env = dict(os.environ, PYTHONHASHSEED=str(hashseed))
    args = [sys.executable, '-c', 'import sys; sys.path.insert(0, %r); from sim.checks import c18; sys.exit(c18.xp_child(sys.argv[1:]))' % VERIF,
            mode, tier, str(batch_seed), str(n), outdir] + ([str(only)] if only is not None else [])
    p = subprocess.run(args, env=env, capture_output=True, text=True, timeout=1500, cwd=VERIF)
    if p.returncode != 0:
        raise RuntimeError('cross-process child (%s) failed: %s %s' % (mode, p.stdout[-300:], p.stderr[-1500:]))
    return [l for l in p.stdout.splitlines() if l.startswith('XP ')]


def _xp(tier, batch_seed, n, only=None):
    import json
    import shutil
    import tempfile
    tmp = tempfile.mkdtemp(prefix='sim-c18-xp-')
    try:
        _xp_spawn(1, 'dump', tier, batch_seed, n, tmp, only)
        lines = _xp_spawn(2, 'load', tier, batch_seed, n, tmp, only)
    finally:
        shutil.rmtree(tmp, ignore_errors=True)
    out = []
    for l in lines:
        _, i, rest = l.split(' ', 2)
        out.append((int(i), None if rest == 'ok' else json.loads(rest[5:])))
    return out


def post_batch(tier, batch_seed, agg):
    """engine hook: the first runs of the batch once more, the snapshot written by one process (PYTHONHASHSEED=1) and restored
    by another (PYTHONHASHSEED=2)"""
    from sim.engine import seed_for
    n = 150 if tier == 'quick' else 1500
    rows = _xp(tier, batch_seed, n)
    stats = {'snapshots_restored_in_another_process': len(rows), 'fault_crash_restore_in_another_process': len(rows)}
    for i, why in rows:
        if why is not None:
            return stats, {'run': i, 'seed': seed_for(ID, batch_seed, i), 'record': {},
                           'violation': {'cls': 'restored-in-another-process-diverges', 'msg': why, 'explained': {}},
                           'custom': {'mode': 'xprocess', 'tier': tier, 'batch_seed': batch_seed, 'run': i, 'hashseeds': [1, 2]}}
    return stats, None


def replay_custom(doc):
    c = doc['custom']
    rows = _xp(c['tier'], c['batch_seed'], c['run'] + 1, only=c['run'])
    bad = [w for i, w in rows if w is not None]
    if bad:
        print('replayed: ' + bad[0])
        return True
    return False

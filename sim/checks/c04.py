"""C04 - non-determinism and conflicts are reported, never silently resolved (DESIGN.md section 4, C04)."""
from sim import ref
from sim.chart import Tr, Cfg, swarm, gen_spec
from sim.engine import Result, Abandon, fp
from sim.semrun import Sim, standard_ops, legal_or_abandon, materialise
from sim.checks import common

ID = 'C04'
LEVEL = 'exploration'
BUDGET = {'quick': 20, 'thorough': 240}
STREAM_ORDER = ['ops', 'guards', 'mat', 'chart', 'cfg']
RULE = (common.GEN + 'guard outcomes and chart shapes are biased towards >= 2 transitions firing at once (same source under compound / '
        'orthogonal parents and on the root, sibling regions with targets inside / outside the region; in half of the runs some guard texts contain braces, which end up in the error message; a quarter of the charts hold an exact duplicate of one transition - a second object that compares equal - which is selected whenever the original is); the exception class of every '
        'step is compared with reference step 6, and after an error nothing may have changed; non-trivial = a step in which the '
        'reference selects >= 2 transitions; distinct = distinct (chart, configuration, event, selected set)')
COMPONENTS = {'real': common.REAL, 'stub': common.STUB}
ASSUMPTIONS = common.ASSUME
LEVEL_TEXT = ('seeded exploration with a per-step prediction of the error class from the real pre-state and a frame check '
              '(configuration, context, probe log, pending event) after every raised error')
LEVEL_NOTE = 'trusted: sim.ref.select step 6 (pairwise region test written from the property statement)'
TECHNIQUE = 'deterministic simulation: seeded chart+history+guard-outcome search, predicted error class + frame check, shrinking, replay'


def run(ch, tier):
    res = Result()
    cfg = swarm(ch.s('cfg'), Cfg(pair_bias=5, bump=True, brace=ch.s('cfg').flag(1, 2)), tier)
    sp = gen_spec(ch.s('chart'), cfg)
    if sp.trans and ch.s('cfg').flag(1, 4):
        # an exact duplicate of one transition (same source, target, event, guard, action, priority - a second object that
        # compares equal): whenever the original is selected so is its twin, and two transitions of one state are an error
        o = ch.s('chart').pick(sp.trans)
        d = Tr(len(sp.trans), o.src, o.tgt, o.event, o.prio, o.guard)
        for k in Tr.__slots__:
            if k != 'i':
                setattr(d, k, getattr(o, k))
        sp.trans.append(d)
        res.stats['charts_with_an_exact_duplicate_transition'] += 1
    sim = Sim(sp, statechart=materialise(sp, ch, res))
    cfp = fp(sp.fingerprint())
    for r in standard_ops(sim, ch, tier, single_pending=True, advance=False, p_true=(6, 8)):
        res.stats['steps'] += 1
        if r.init:
            if r.exc is not None:
                raise Abandon('other: %s at initialisation' % r.exc_name())
            continue
        legal_or_abandon(sp, r.pre, 'C04')
        sel = r.sel
        ctx = dict(chart=sp.describe(), configuration=sp.canon(r.pre), pending=r.head and (r.head[3], r.head[2]),
                   truth={'t%d' % k: v for k, v in sorted(r.truth.items())},
                   selected=['t%d' % t.i for t in sel.fired], step=r.k)
        got = r.exc_name()
        if sel.err:
            if got != sel.err:
                return res.fail('wrong-or-missing-error', 'the selected transitions %s require %s, execute_once %s' % (
                    ctx['selected'], sel.err, 'raised %s: %s' % (got, str(r.exc)[:80]) if got else 'returned normally'), **ctx)
            side = [e for e in r.log if e[0] not in ('guard', 'tguard')]
            if r.post != r.pre or r.ctx_after != r.ctx_before or side:
                return res.fail('error-not-atomic', 'after %s: configuration %s -> %s, context v %r -> %r, code run: %s' % (
                    got, sp.canon(r.pre), sorted(r.post), r.ctx_before, r.ctx_after, side[:4]), **ctx)
            res.stats['raised_' + sel.err] += 1
        else:
            if got in ('NonDeterminismError', 'ConflictingTransitionsError'):
                return res.fail('spurious-error', '%s raised although the selected transitions %s are pairwise in distinct regions '
                                'and stay inside them' % (got, ctx['selected']), **ctx)
            if r.exc is not None:
                raise Abandon('other: unexpected %s' % got)
            # "nothing consumed" by an earlier failed step shows here: the pending event must still be the one consumed
            if sel.consume and r.consumed_uid != r.head[2]:
                return res.fail('event-lost-by-error', 'expected pending event uid %s to be consumed, step consumed %r' % (
                    r.head[2], r.ms and r.ms.event), **ctx)
            if len(sel.fired) >= 2:
                res.stats['parallel_ok_steps'] += 1
        if len(sel.fired) >= 2:
            res.nontrivial.add(fp((cfp, sorted(r.pre), r.head and r.head[3], sorted(t.i for t in sel.fired))))
            if len(sel.fired) >= 3:
                res.stats['three_or_more_selected'] += 1
            if res.sample is None:
                res.sample = dict(ctx, outcome=got or 'no error')
    res.sim_time = float(sim.now())
    return res

"""C15 - bound statecharts: sent events reach every bound target once, in order (DESIGN.md section 4, C15)."""
from fractions import Fraction as F

from sim.chart import Cfg, swarm, gen_spec
from sim.engine import Result, Abandon, fp
from sim.probes import Probe, Box
from sim.semrun import Sim, TICK
from sim.checks import common

from sismic.model import Event, InternalEvent, MetaEvent

ID = 'C15'
LEVEL = 'exploration'
BUDGET = {'quick': 20, 'thorough': 240}
BLOCK = 20
STREAM_ORDER = ['ops', 'guards', 'chart', 'cfg']
RULE = ('2-4 interpreters on generated charts that send events (with parameters and delays) and notify, plus 1-3 recording callables; the '
        'seeded scheduler interleaves bind / detach (chains, fan-out, cycles, self-binding; interpreter targets bound directly), queue, clock '
        'advances (each interpreter has its own clock) and execute_once on a scheduler-chosen interpreter. For every returned step of a '
        'sender the deliveries observed by the callables must be exactly (sent internal event x callable targets bound at that moment) in '
        'sending order then binding order, as plain Event with equal name and data (in a third of the runs some delays are negative; in a third some events carry the context Box, an object without value equality: the delivered parameter must be that very object); interpreter targets are checked through the C05 queue '
        'model (delivered event consumed later as an external event, FIFO, after its delay counted from the receiver time); the sender '
        'still consumes its own copy as an internal event. non-trivial = a sender step with >= 1 sent event and >= 2 bound targets; '
        'distinct = distinct (charts, topology, sender, sent events)')
COMPONENTS = {'real': common.REAL + ['Interpreter.bind / attach / detach', 'sismic.interpreter.listener.InternalEventListener'], 'stub': common.STUB}
ASSUMPTIONS = common.ASSUME + ['an interpreter target is bound at most once to a sender at a time (callables may be bound twice)',
                               'whether a target receives the event before or after the sender queued its own copy is not constrained']
LEVEL_TEXT = 'seeded exploration of multi-party delivery schedules with per-step delivery accounting and per-receiver queue models'
LEVEL_NOTE = 'trusted: sim.ref.QueueModel per receiver; the recording callables as ground truth for deliveries'
TECHNIQUE = 'deterministic simulation: seeded scheduling of several interpreters and bind/detach points; delivery accounting + queue models; shrinking; replay'


class Recorder:
    """recording callable; an *active* one detaches a target of some sender when it receives its n-th event,
    i.e. possibly while that sender is in the middle of dispatching a sent event to its targets"""

    def __init__(self, name, glog):
        self.name = name
        self.glog = glog
        self.count = 0
        self.plan = None        # (n, sender index, key of the target to detach, key of a callable to bind in the same breath or None)
        self.act = None         # callback performing the planned detach on the real interpreters

    def __call__(self, event):
        self.glog.append((self.name, type(event).__name__, event.name, IDS[0](event.data)))
        self.count += 1
        if self.plan is not None and self.count == self.plan[0]:
            self.act(self.plan[1], self.plan[2], self.plan[3])


class Ids:
    """printable form of event parameters; an object without value equality (the Box of the context) is named by its identity,
    numbered in order of first sight: a delivered parameter is the parameter that was sent, not a look-alike"""

    def __init__(self):
        self.seen = {}
        self.keep = []

    def __call__(self, data):
        out = []
        for k, v in sorted(data.items()):
            if isinstance(v, Box):
                if id(v) not in self.seen:
                    self.seen[id(v)] = len(self.seen)
                    self.keep.append(v)
                out.append((k, 'Box#%d' % self.seen[id(v)]))
            else:
                out.append((k, repr(v)))
        return tuple(out)


IDS = [None]


class Relay:
    """a helper created on the spot for one binding (`sender.bind(Relay(target).deliver)`): nobody but the binding keeps it"""

    def __init__(self, target):
        self.target = target

    def deliver(self, event):
        self.target(event)


def run(ch, tier):
    res = Result()
    cs = ch.s('cfg')
    ops = ch.s('ops')
    gs = ch.s('guards')
    nint = cs.int(2, 4)
    ncall = cs.int(1, 3)
    sims = []
    twins = cs.flag(1, 3)      # every interpreter runs the same statechart: their sends can be equal by value
    anon = cs.flag(1, 2)
    payload = cs.flag(1, 3)    # some sent events carry the context's list and its Box (an object without value equality)
    IDS[0] = Ids()
    neg = cs.flag(1, 3)
    for i in range(nint):
        cfg = swarm(cs, Cfg(sends=True, notify=True, delays=True, max_states=8), tier)
        cfg.max_states = min(cfg.max_states, 8)
        cfg.max_trans = min(cfg.max_trans, 10)
        cfg.anon = anon
        cfg.payload = payload
        cfg.neg_delays = neg      # some events are sent with a negative delay: due since before they were sent, they queue up in front
        sp = sims[0].sp if (twins and sims) else gen_spec(ch.s('chart%d' % i), cfg)
        P = Probe(tag='i%d' % i)
        P.uid = 100000 * (i + 1)
        sims.append(Sim(sp, probe=P))
    glog = []
    dup_ok = cs.flag(1, 2)
    calls = [Recorder('c%d' % j, glog) for j in range(ncall)]
    for c_ in calls:
        if cs.flag(1, 3):
            c_.queue = []       # a callable that happens to keep an inbox called `queue` is still a callable
            res.stats['callable_with_queue_attribute'] += 1
    bound = {i: [] for i in range(nint)}       # sender -> ordered list of (target key, listener)

    def detach_now(snd, key, key_bind=None):
        for k, l in list(bound[snd]):
            if k == key:
                bound[snd].remove((k, l))
                sims[snd].it.detach(l)
                hist.append(('detach-from-callback', 'i%d' % snd, key))
                res.stats['detach_during_dispatch_or_callback'] += 1
        if key_bind is not None and key_bind not in [k for k, _ in bound[snd]]:
            # replace it by another target in the same callback: the newcomer hears about the *next* event
            bound[snd].append((key_bind, sims[snd].it.bind(calls[int(key_bind[1:])])))
            hist.append(('bind-from-callback', 'i%d' % snd, key_bind))
            res.stats['bind_during_dispatch_or_callback'] += 1
    for c_ in calls:
        c_.act = detach_now
        if cs.flag(1, 2):
            snd = cs.choice(nint)
            c_.plan = (cs.int(1, 3), snd, cs.pick(['i%d' % j for j in range(nint)] + ['c%d' % j for j in range(ncall)]),
                       cs.pick(['c%d' % j for j in range(ncall)]) if cs.flag(1, 2) else None)
    events_by_chart = [sorted({t.event for t in s.sp.trans if t.event}) or ['ea'] for s in sims]
    hist = []
    cfp = fp(tuple(s.sp.fingerprint() for s in sims))

    def topo():
        return {('i%d' % i): [k for k, _ in v] for i, v in bound.items()}

    def ctx(extra=None):
        d = dict(charts=[s.sp.describe() for s in sims], bindings=topo(), history=hist[-25:])
        if extra:
            d.update(extra)
        return d

    def do_step(i):
        sim = sims[i]
        truth = sim.draw_truth(gs, 5, 8)
        mark = len(glog)
        targets = list(bound[i])
        mb = {k: list(v) for k, v in bound.items()}        # model of the bindings, evolves as active callables detach
        mc = {c_.name: c_.count for c_ in calls}
        via = gs.flag(1, 5)      # now and then through execute(max_steps=1): what it returns lists what was delivered
        r = sim.step(truth, via_execute=via)
        res.stats['steps'] += 1
        res.stats['steps_through_execute_max_steps_1'] += int(via)
        hist.append(('step', 'i%d' % i, r.ms and [repr(e) for e in r.ms.sent_events]))
        if r.exc is not None:
            if r.sel is not None and r.sel.err and type(r.exc).__name__ == r.sel.err:
                if len(glog) != mark:
                    return res.fail('delivery-in-failed-step', 'deliveries during a step that raised %s' % r.exc_name(), **ctx())
                return None
            tb = r.exc.__traceback__
            files = []
            while tb is not None:
                files.append(tb.tb_frame.f_code.co_filename.rsplit('/', 1)[-1] + ':' + tb.tb_frame.f_code.co_name)
                tb = tb.tb_next
            if any(f.startswith('listener.py') or f.endswith(':_raise_event') for f in files):
                return res.fail('delivery-raised', 'step of i%d raised %s while delivering a sent event to the bound targets %s: %s' % (
                    i, r.exc_name(), [k for k, _ in targets], str(r.exc)[:100]), **ctx())
            raise Abandon('other: unexpected %s' % r.exc_name())
        # --- receiver-side consumption (queue discipline of whoever steps)
        eventless = r.ms is not None and any(t.event is None for t in r.ms.transitions)
        if r.ms is not None and r.ms.event is not None:
            e = r.ms.event
            info = sim.all_uids.get(r.consumed_key)
            if r.consumed_uid is None:
                # an event without identity: only its class, name and position in the queue can be checked
                if not r.consumed_head:
                    return res.fail('delivery-order', 'i%d consumed %r (%s); its queue model prescribes %s as the next %s event' % (
                        i, e, type(e).__name__, r.head and (r.head[3], r.head[2]), 'internal' if r.head_internal else 'external'), **ctx())
                res.stats['value_equal_events_consumed'] += 1
            elif info is None:
                return res.fail('unexpected-delivery', 'i%d consumed %r (%s) which no bound sender delivered to it and nobody queued' % (
                    i, e, type(e).__name__), **ctx())
            elif info['consumed_at'] == 'twice':
                return res.fail('delivered-twice', 'i%d consumed %r a second time' % (i, e), **ctx())
            elif not r.consumed_head:
                return res.fail('delivery-order', 'i%d consumed %r; its queue model prescribes uid %s (%s)' % (
                    i, e, r.head and r.head[2], r.head and r.head[3]), **ctx())
            elif info['due'] > r.T:
                return res.fail('delivered-delay-ignored', 'i%d consumed %r at %s, due at %s' % (i, e, float(r.T), float(info['due'])), **ctx())
        elif r.head is not None and not eventless:
            return res.fail('delivery-missing', 'i%d consumed nothing at %s although uid %s (%s, %s) was due since %s' % (
                i, float(r.T), r.head[2], r.head[3], 'internal copy' if r.head_internal else 'external / delivered', float(r.head[0])), **ctx())
        # --- sender-side accounting
        sent = []
        if r.ms is not None:
            for m in r.ms.steps:
                for e in m.sent_events:
                    if isinstance(e, InternalEvent):
                        sent.append(e)
        code_sends = [x[1] for x in r.log if x[0] in ('send', 'anon')]
        if [e.data.get('uid') for e in sent] != code_sends:
            return res.fail('sent-list-differs', 'MacroStep lists sent uids %s, the code sent %s' % ([e.data.get('uid') for e in sent], code_sends), **ctx())
        want = []
        for e in sent:
            for key, lst in list(mb[i]):
                if (key, lst) not in mb[i]:
                    continue        # detached by a callable earlier in this very dispatch: nothing is delivered after detach
                if key.startswith('c'):
                    want.append((key, 'Event', e.name, IDS[0](e.data)))
                    c_ = calls[int(key[1:])]
                    mc[c_.name] += 1
                    if c_.plan is not None and mc[c_.name] == c_.plan[0]:
                        mb[c_.plan[1]] = [(k, l) for k, l in mb[c_.plan[1]] if k != c_.plan[2]]
                        if c_.plan[3] is not None and c_.plan[3] not in [k for k, _ in mb[c_.plan[1]]]:
                            mb[c_.plan[1]] = mb[c_.plan[1]] + [(c_.plan[3], object())]
                else:
                    j = int(key[1:])
                    d = e.data.get('delay')
                    sims[j].expect_external(e.data.get('uid'), e.name, sims[j].lastT + (F(d) if d is not None else 0))
        got = glog[mark:]
        if got != want:
            k = next((k for k, (x, y) in enumerate(zip(got, want)) if x != y), min(len(got), len(want)))
            return res.fail('callable-deliveries', 'step of i%d sent %s with callable targets %s bound: delivery %d is %r, expected %r' % (
                i, [(e.name, e.data.get('uid')) for e in sent], [k2 for k2, _ in targets if k2.startswith('c')], k,
                got[k] if k < len(got) else 'missing', want[k] if k < len(want) else 'none'), **ctx())
        if {k: [x for x, _ in v] for k, v in mb.items()} != {k: [x for x, _ in v] for k, v in bound.items()}:
            raise RuntimeError('harness: binding model out of sync although the deliveries were the expected ones')
        if sent and len(targets) >= 2:
            res.nontrivial.add(fp((cfp, sorted(topo().items()), i, [(e.name, e.data.get('delay')) for e in sent])))
            res.stats['sender_steps_with_2plus_targets'] += 1
            if any(k == 'i%d' % i for k, _ in targets):
                res.stats['self_bound_sender'] += 1
            if res.sample is None:
                res.sample = ctx({'sender': 'i%d' % i, 'sent': [repr(e) for e in sent], 'callable_deliveries': got})
        if sent:
            res.stats['internal_events_sent'] += len(sent)
            if any(e.data.get('delay') for e in sent):
                res.stats['delayed_events_forwarded'] += 1
        return None

    for i in range(nint):
        if do_step(i):
            return res
    n = ops.int(8, 50 if tier == 'quick' else 100)
    for _ in range(n):
        op = ops.weighted([('step', 8), ('queue', 5), ('bind', 4), ('detach', 2), ('advance', 2)])
        i = ops.choice(nint)
        if op == 'step':
            if do_step(i):
                return res
        elif op == 'queue':
            d = ops.pick([None, None, 0, 1, 2])
            live = sorted({t.event for t in sims[i].sp.trans if t.event and t.src in set(sims[i].it.configuration)})
            name = ops.pick(live) if live and ops.flag(3, 4) else ops.pick(events_by_chart[i] + ['zz'])
            sims[i].queue(name, d)
            hist.append(('queue', 'i%d' % i, name, d))
        elif op == 'advance':
            d = ops.pick([F(1), F(2), TICK, F(5), F(100)])
            sims[i].advance(d)
            hist.append(('advance', 'i%d' % i, float(d)))
        elif op == 'bind':
            cands = ['i%d' % j for j in range(nint)] + ['c%d' % j for j in range(ncall)]
            have = [x for x, _ in bound[i]]
            # a callable may be bound twice to one sender (it then receives every event twice); interpreters once
            cands = [k for k in cands if k not in have or (k.startswith('c') and have.count(k) < 2 and dup_ok)]
            if not cands:
                continue
            key = ops.pick(cands)
            target = sims[int(key[1:])].it if key.startswith('i') else calls[int(key[1:])]
            if key.startswith('c') and ops.flag(1, 3):
                target = Relay(target).deliver       # a bound method of an object only the binding refers to
                res.stats['bound_method_of_an_otherwise_unreferenced_object'] += 1
            listener = sims[i].it.bind(target)
            bound[i].append((key, listener))
            hist.append(('bind', 'i%d' % i, key))
            res.stats['binds'] += 1
        elif op == 'detach':
            if not bound[i]:
                continue
            key, listener = bound[i].pop(ops.choice(len(bound[i])))
            sims[i].it.detach(listener)
            hist.append(('detach', 'i%d' % i, key))
            res.stats['detaches'] += 1
    # drain: every delivered event must eventually be consumed by its receiver (bounded; charts may never quiesce)
    for i in range(nint):
        for _ in range(12):
            sims[i].advance(F(1000))
            if do_step(i):
                return res
    res.sim_time = float(max(s.now() for s in sims))
    return res

"""C20 - async runner: no step unreported, no event lost, orderly lifecycle (DESIGN.md section 4, C20)."""
import threading as real_threading
import time as real_time

from sim.engine import Result, Abandon, fp, Choices
from sim.threadsim import Sched, make_fakes, install_monitoring, CURRENT
from sim.checks import common

import sismic.runner.runner as runner_mod
import sismic.interpreter.default as interp_mod
from sismic.clock import Clock
from sismic.interpreter import Interpreter
from sismic.model import Statechart, CompoundState, BasicState, FinalState, Transition, Event

ID = 'C20'
LEVEL = 'exploration'
BUDGET = {'quick': 25, 'thorough': 300}
BLOCK = 40
STREAM_ORDER = ['sched', 'preempt', 'faults', 'time', 'script', 'cfg']
RULE = ('the real AsyncRunner and Interpreter run on real OS threads under a baton-passing scheduler: a runner thread and 1-3 client threads '
        'with drawn scripts over queue(uid), queue(uid, delay), pause, unpause, sleep, ending with stop() - in some runs a second client calls stop() as well - (or with an event that makes the '
        'statechart final followed by wait(), after which in half of those runs another event is queued and a second runner is started on the final interpreter and must execute nothing); one run in thirteen stops and waits for a runner that was never started; in a fifth of the runs the before_run hook pauses the runner, in some the after_execute hook of a drawn cycle does, in a fifth an action blocks for 0.5 / 2 / 15 virtual seconds (slow node), in a quarter the other clients are already at work while start() is called; runner knobs (interval in {0, 1/16, 1}, execute_all) drawn per run. The seeded scheduler decides '
        'every context switch at fake threading/time primitives and - in the fine configuration - at LINE events inside Interpreter._queue_event '
        '/ _select_event / execute_once / _KeyifyList.__getitem__ and the AsyncRunner methods; it injects thread stalls, wall-clock jumps seen '
        'by time.time(), and sleep overshoot. History checks (events stamped with a global sequence number): executed steps (listener ground '
        'truth) = steps handed to after_execute, each once, in order, <= 1 per cycle unless execute_all; every uid whose queue() returned is '
        'consumed exactly once (after a synchronous drain); delay-0 events FIFO; no step returns empty-handed while a delay-0 event is pending; '
        'delayed events not before their due time; before_run/after_run once; <= 1 cycle begins after pause() returned (none when the runner thread itself paused from before_run); stop()/wait() return '
        '(no deadlock); nothing executes after stop() returned. non-trivial = a completed run with >= 3 context switches between client and '
        'runner; distinct = distinct context-switch sequences (thread, yield-point kind)')
COMPONENTS = {'real': ['sismic.runner.AsyncRunner', 'sismic.interpreter.Interpreter (queue, execute_once, listeners)', 'real OS threads (one runs at a time)'],
              'stub': ['threading.Event / Thread / Lock / RLock (waits and joins honour their timeout; a Lock is not re-entrant) and time.time / time.sleep as seen by sismic/runner/runner.py (simulator-owned fakes)',
                       'interpreter clock reading the simulator virtual time', 'thread scheduling (baton + sys.monitoring LINE pre-emption)']}
ASSUMPTIONS = ['pre-emption inside C-level list operations cannot happen under the GIL and is not modelled',
               'LINE-level pre-emption is restricted to the queue code of Interpreter and the methods of AsyncRunner',
               'statecharts have no eventless transitions, so a step that starts with a due event pending must consume one']
LEVEL_TEXT = ('seeded exploration of thread schedules (coarse: interpreter calls atomic; fine: line-level pre-emption) with injected stalls, '
              'clock jumps and sleep overshoot; safety checks over the recorded history and bounded liveness (every thread finishes)')
LEVEL_NOTE = 'trusted: the scheduler (sim/threadsim.py), the attached listener as ground truth for executed steps'
TECHNIQUE = 'deterministic simulation: baton-passing real threads, fake threading/time, sys.monitoring line pre-emption, seeded schedules + faults, history checks'

# classifier switches (known findings K1 / K2)
ATOMIC_QUEUE = [False]
NO_PAUSE_AFTER_STOP = [False]


class VClock(Clock):
    def __init__(self, sched):
        self.s = sched

    @property
    def time(self):
        return self.s.now


def chart(watchdog=False, slow=False):
    sc = Statechart('c20')
    # variant: the statechart arms a far-away delayed internal event when it starts; it is never due during a run
    sc.add_state(CompoundState('root', initial='a', on_entry="send('wd', delay=100000)" if watchdog else None), None)
    sc.add_state(BasicState('a'), 'root')
    sc.add_state(BasicState('b'), 'root')
    sc.add_state(FinalState('f'), 'root')
    sc.add_transition(Transition('a', None, event='e', action='seen.append(event.uid)' + ('\nstall(event.uid)' if slow else '')))
    sc.add_transition(Transition('a', 'b', event='t', action='seen.append(event.uid)'))
    sc.add_transition(Transition('b', 'a', event='t', action='seen.append(event.uid)'))
    sc.add_transition(Transition('b', None, event='e', action='seen.append(event.uid)'))
    sc.add_transition(Transition('a', 'f', event='end'))
    sc.add_transition(Transition('b', 'f', event='end'))
    return sc


def _codes(owner, names):
    """code objects of the named functions that exist in this tree (private helpers may come and go)"""
    out = []
    for n in names:
        f = owner
        for part in n.split('.'):
            f = getattr(f, part, None)
            if f is None:
                break
        if f is not None and hasattr(f, '__code__'):
            out.append(f.__code__)
    return out


_QUEUE_FUNCS = _codes(interp_mod, ['Interpreter._queue_event', 'Interpreter._select_event', '_KeyifyList.__getitem__',
                                   'Interpreter.execute_once', 'Interpreter.queue', 'Interpreter._consume_event'])
CODES = _QUEUE_FUNCS + _codes(runner_mod, ['AsyncRunner.execute', 'AsyncRunner._run', 'AsyncRunner.pause', 'AsyncRunner.unpause',
                                           'AsyncRunner.stop', 'AsyncRunner.wait', 'AsyncRunner.start'])


def _nested(code):
    """code objects defined inside `code` (lambdas, comprehensions): key functions called back from C code are
    pre-emption points too"""
    out = []
    for c in code.co_consts:
        if hasattr(c, 'co_code'):
            out.append(c)
            out.extend(_nested(c))
    return out


QUEUE_CODES = list(_QUEUE_FUNCS)      # every piece of Interpreter code that touches the event queues (execute_once peeks, then pops)
QUEUE_CODES = QUEUE_CODES + [n for c in QUEUE_CODES for n in _nested(c)]
CODES = CODES + [n for c in CODES for n in _nested(c) if n not in CODES]


def run(ch, tier):
    res = Result()
    cs = ch.s('cfg')
    sc_ = ch.s('script')
    fine = cs.flag(1, 2)
    density = cs.pick([4, 2, 8, 16])
    interval = cs.pick([1 / 16, 0, 1])
    execute_all = cs.flag(1, 2)
    nclients = cs.int(1, 3)
    ending = cs.weighted([('stop', 9), ('final-wait', 3), ('never-started', 1)])
    second_runner = ending == 'final-wait' and cs.flag(1, 2)
    pause_in_hook = cs.flag(1, 5)
    early_clients = cs.flag(1, 4)      # the other clients are already at work while start() is called
    # the runner pauses itself from after_execute at the end of its k-th cycle (only when a client ends the run with stop(),
    # which releases a parked runner)
    pause_in_cycle = cs.int(1, 4) if ending == 'stop' and cs.flag(1, 6) else 0
    maxops = 8 if tier == 'quick' else 12
    sched = Sched(ch, fine, density=density)
    sched.queue_codes = set(QUEUE_CODES)
    if ATOMIC_QUEUE[0]:
        sched.atomic_codes = set(QUEUE_CODES)
    install_monitoring(CODES)
    ft, ftime = make_fakes(sched)
    seen = []
    watchdog = cs.flag(1, 3)
    # fault "slow node": in a fifth of the runs the action that handles some events blocks for a drawn (virtual) while - a
    # cycle can then last much longer than the runner's interval, and stop() / pause() arrive while it is under way
    slow = cs.pick([0.5, 2.0, 15.0]) if cs.flag(1, 5) else 0
    slow_mod = cs.int(1, 3)

    def stall(uid):
        if uid % slow_mod == 0:
            sched.log('stall', uid)
            sched.count('fault_slow_action')
            sched.sleep(slow)

    it = Interpreter(chart(watchdog, bool(slow)), clock=VClock(sched), initial_context={'seen': seen, 'stall': stall})

    def listener(me):
        if me.name == 'step started':
            sched.log('m-start', me.time)
        elif me.name == 'step ended':
            sched.log('m-end')
        elif me.name == 'event consumed':
            # (the peek/pop race of K1 can make the runner announce the consumption of nothing at all)
            sched.log('m-consumed', me.event.data.get('uid') if me.event is not None else None, getattr(me.event, 'name', None))
        else:
            sched.log('m-other', me.name)
    it.attach(listener)

    class R(runner_mod.AsyncRunner):
        def before_run(self):
            sched.log('before_run')
            if pause_in_hook:
                # the usual way to start a runner paused; start() may still be in flight in the client that called it
                sched.log('pause-inv')
                self.pause()
                sched.log('pause-ret')
            hook_done[0] = True

        def after_run(self):
            sched.log('after_run')

        def before_execute(self):
            sched.log('cycle-begin')

        def after_execute(self, steps):
            sched.log('reported', tuple((ms.event.data.get('uid') if ms.event is not None else None) for ms in steps))
            cycles[0] += 1
            if cycles[0] == pause_in_cycle:
                sched.log('pause-inv')
                self.pause()
                sched.log('pause-ret')

    class R2(R):
        """a second runner, started on the same interpreter once the first one has stopped by itself"""

        def before_run(self):
            sched.log('before_run2')

        def after_run(self):
            sched.log('after_run2')

        def before_execute(self):
            sched.log('cycle-begin2')

        def after_execute(self, steps):
            sched.log('reported2', len(steps))

    uid = [0]
    stop_invoked = [False]
    started = [False]       # start() has returned
    hook_done = [False]     # before_run has run (with its pause(), if any)
    cycles = [0]

    def draw_script(main):
        ops = []
        for _ in range(sc_.int(1, maxops)):
            k = sc_.weighted([('queue', 5), ('queue_delay', 2), ('toggle', 2), ('pause', 2), ('unpause', 2), ('sleep', 2)])
            if k in ('queue', 'toggle'):
                uid[0] += 1
                ops.append((k, uid[0], None))
            elif k == 'queue_delay':
                uid[0] += 1
                ops.append((k, uid[0], sc_.pick([1, 2, 0.5])))
            elif k == 'sleep':
                ops.append((k, sc_.pick([1 / 16, 0.5, 3]), None))
            else:
                ops.append((k, None, None))
        if not main and ending == 'stop' and sc_.flag(1, 3):
            ops.append(('stop', None, None))        # a second client stops the runner too, whenever it gets there
        return ops

    scripts = [draw_script(i == 0) for i in range(nclients)]
    saved = (runner_mod.threading, runner_mod.time)
    runner_mod.threading, runner_mod.time = ft, ftime
    CURRENT[0] = sched
    try:
        r = R(it, interval=interval, execute_all=execute_all)

        def do_ops(ops):
            for k, a, b in ops:
                sched.yield_point('client-op')
                if k in ('queue', 'toggle', 'queue_delay'):
                    name = 't' if k == 'toggle' else 'e'
                    sched.log('queue-inv', a, b, it.time)
                    if b is None:
                        it.queue(Event(name, uid=a))
                    else:
                        it.queue(Event(name, uid=a, delay=b))
                    sched.log('queue-ret', a)
                elif k == 'pause':
                    if NO_PAUSE_AFTER_STOP[0] and stop_invoked[0]:
                        continue
                    sched.log('pause-inv')
                    r.pause()
                    sched.log('pause-ret')
                elif k == 'unpause':
                    sched.log('unpause-inv')
                    r.unpause()
                    sched.log('unpause-ret')
                elif k == 'stop':
                    # stopping a runner that was never started is not what the property is about
                    sched.block(lambda: started[0], 'wait-for-start')
                    stop_invoked[0] = True
                    sched.log('stop-inv')
                    r.stop()
                    sched.log('stop-ret')
                else:
                    sched.sleep(a)

        others = []

        def main_never_started():
            # a runner that is stopped (and waited for) without ever having been started: both calls return, nothing runs,
            # and it cannot be started afterwards
            for i in range(1, nclients):
                t = sched.spawn(lambda i=i: (do_ops(scripts[i]), sched.log('client-done', i)), 'client%d' % i)
                others.append(t)
                t.start_real()
            do_ops(scripts[0])
            sched.block(lambda: all(t.state == 'done' for t in others), 'join-clients')
            sched.log('stop-inv')
            r.stop()
            sched.log('stop-ret')
            sched.log('wait-inv')
            r.wait()
            sched.log('wait-ret')
            try:
                r.start()
                sched.log('restart', 'accepted')
            except RuntimeError:
                sched.log('restart', 'refused')

        def main_client():
            def launch_others():
                for i in range(1, nclients):
                    t = sched.spawn(lambda i=i: (do_ops(scripts[i]), sched.log('client-done', i)), 'client%d' % i)
                    others.append(t)
                    t.start_real()
            if early_clients:
                launch_others()
            sched.log('start-inv')
            r.start()
            sched.log('start-ret')
            started[0] = True
            if not early_clients:
                launch_others()
            do_ops(scripts[0])
            if ending == 'stop':
                early = sc_.flag(1, 3)      # stop while the other clients are still busy
                if not early:
                    sched.block(lambda: all(t.state == 'done' for t in others), 'join-clients')
                stop_invoked[0] = True
                sched.log('stop-inv')
                r.stop()
                sched.log('stop-ret')
            else:
                sched.block(lambda: all(t.state == 'done' for t in others), 'join-clients')
                # the closing unpause() must come after the pause() of the before_run hook, or nobody ever undoes that one
                sched.block(lambda: hook_done[0], 'wait-for-hook')
                sched.log('unpause-inv')
                r.unpause()
                sched.log('unpause-ret')
                uid[0] += 1
                sched.log('queue-inv', uid[0], None, it.time)
                it.queue(Event('end', uid=uid[0]))
                sched.log('queue-ret', uid[0])
                sched.log('wait-inv')
                r.wait()
                sched.log('wait-ret')
                if second_runner and it.final:
                    # the statechart is final and the runner has stopped by itself: an event queued now stays where it is, and
                    # another runner started on this interpreter has nothing to execute
                    uid[0] += 1
                    sched.log('queue-inv', uid[0], None, it.time)
                    it.queue(Event('e', uid=uid[0]))
                    sched.log('queue-ret', uid[0])
                    r2 = R2(it, interval=interval, execute_all=execute_all)
                    sched.log('start2-inv')
                    r2.start()
                    sched.log('start2-ret')
                    r2.wait()
                    sched.log('wait2-ret')

        c0 = sched.spawn(main_never_started if ending == 'never-started' else main_client, 'client0')
        c0.start_real()
        sched.run()
        mark = sched.seq
        # synchronous drain by the harness: every event must come out exactly once
        sched.now += 1000.0
        drained = []
        try:
            drained = it.execute(max_steps=200)
        except Exception as e:
            sched.errors.append(('drain', type(e).__name__, str(e)[:100]))
    finally:
        CURRENT[0] = None
        runner_mod.threading, runner_mod.time = saved
    for k, v in sched.stats.items():
        res.stats[k] += v
    res.stats['decisions'] += sched.steps
    res.stats['fine_runs' if fine else 'coarse_runs'] += 1
    res.stats['runs_with_pending_delayed_internal_event'] += int(watchdog)
    res.stats['runs_with_a_second_runner_started_on_the_final_statechart'] += int(any(e[2] == 'start2-inv' for e in sched.events))
    res.stats['runs_pausing_from_before_run'] += int(pause_in_hook)
    res.stats['runs_pausing_from_after_execute'] += int(bool(pause_in_cycle and cycles[0] >= pause_in_cycle))
    res.stats['runs_with_clients_at_work_before_start'] += int(early_clients and nclients > 1)
    res.stats['runs_in_which_two_clients_call_stop'] += int(any(o[0] == 'stop' for sc2 in scripts for o in sc2))
    res.sim_time = sched.now - 1000.0
    H = sched.events
    ctx = dict(knobs=dict(fine=fine, density=density, interval=interval, execute_all=execute_all, clients=nclients, ending=ending, watchdog=watchdog),
               scripts=scripts, history_tail=[e for e in H if e[0] <= mark][-40:])
    res.extra = evidence(H, sched)
    if sched.capped:
        raise Abandon('step cap reached')
    if sched.errors:
        name, cls, msg = sched.errors[0]
        return res.fail('exception-in-thread', '%s died with %s: %s' % (name, cls, msg), **ctx)
    if sched.deadlock:
        return res.fail('deadlock', 'no thread can run: %s' % (sched.deadlock,), **ctx)
    if ending == 'never-started':
        res.stats['runs_stopping_a_runner_that_was_never_started'] += 1
        simh = [e for e in H if e[0] <= mark]
        kinds = [e[2] for e in simh]
        if 'stop-ret' not in kinds or 'wait-ret' not in kinds:
            return res.fail('stop-did-not-return', 'stop() / wait() on a runner that was never started did not return', **ctx)
        ran = [k for k in kinds if k in ('before_run', 'after_run', 'cycle-begin', 'm-start')]
        if ran:
            return res.fail('executes-after-stop', 'a runner that was never started ran: %s' % ran[:5], **ctx)
        if ('restart', 'refused') not in [(e[2], e[3]) for e in simh if e[2] == 'restart']:
            return res.fail('lifecycle', 'start() after stop() was accepted', **ctx)
        got = sorted(c_ for c_ in (ms.event.data.get('uid') for ms in drained if ms.event is not None))
        want = sorted(e[3] for e in simh if e[2] == 'queue-ret')
        if got != want:
            return res.fail('event-lost', 'events queued %s, the synchronous drain consumed %s' % (want, got), **ctx)
        return res
    v = check_history(H, mark, execute_all, ending)
    if v:
        res.extra['involved_uids'] = list(v[2]) if len(v) > 2 else []
        return res.fail(v[0], v[1], **ctx)
    cross = sum(1 for i in range(1, len(sched.switches)) if (sched.switches[i][0] == 'runner') != (sched.switches[i - 1][0] == 'runner'))
    if cross >= 3:
        res.nontrivial.add(fp(sched.switches))
        res.sample = dict(knobs=ctx['knobs'], scripts=scripts, context_switches=sched.switches[:25], decisions=sched.steps)
    return res


def check_history(H, mark, execute_all, ending):
    sim = [e for e in H if e[0] <= mark]
    # ---- ground truth: executed calls of execute_once
    calls = []      # dict(start seq, time, consumed uid or None, inner events, end seq)
    cur = None
    for e in H:
        k = e[2]
        if k == 'm-start':
            cur = {'s': e[0], 'time': e[3], 'uid': None, 'inner': 0, 'end': None, 'by': e[1]}
            calls.append(cur)
        elif k == 'm-consumed' and cur is not None:
            cur['uid'] = e[3]
            cur['inner'] += 1
        elif k == 'm-other' and cur is not None:
            cur['inner'] += 1
        elif k == 'm-end' and cur is not None:
            cur['end'] = e[0]
            cur = None
    executed = [c['uid'] for c in calls if c['inner'] > 0 and c['s'] <= mark]
    reported = []
    for e in sim:
        if e[2] == 'reported':
            if not execute_all and len(e[3]) > 1:
                return ('more-than-one-step-per-cycle', 'after_execute received %d steps in one cycle although execute_all is off' % len(e[3]))
            reported.extend(e[3])
    if executed != reported:
        return ('steps-not-reported-faithfully', 'steps executed by the runner consumed uids %s, after_execute was handed %s' % (executed, reported))
    # ---- exactly once
    ret = {e[3]: e[0] for e in sim if e[2] == 'queue-ret'}
    inv = {e[3]: e for e in sim if e[2] == 'queue-inv'}
    cons = {}
    for c in calls:
        if c['uid'] is not None:
            cons.setdefault(c['uid'], []).append(c)
    for u in ret:
        n = len(cons.get(u, []))
        if n != 1:
            return ('event-lost' if n == 0 else 'event-consumed-twice',
                    'event uid %s whose queue() returned was consumed %d times (drain included)' % (u, n))
    for u in cons:
        if u not in inv:
            return ('unknown-event', 'uid %s consumed but never queued' % u)
    # ---- delay-0 FIFO and "not left behind"
    zero = [u for u in ret if inv[u][4] is None]
    for a in zero:
        for b in zero:
            if a != b and ret[a] < inv[b][0] and cons[a][0]['s'] > cons[b][0]['s']:
                return ('fifo', 'queue(uid %s) returned before queue(uid %s) was called, yet %s was consumed first' % (a, b, b), [a, b])
    for c in calls[1:]:     # calls[0] is the initialisation step, which enters the root and consumes nothing by design
        if c['uid'] is None and c['s'] <= mark:
            stuck = [u for u in zero if ret[u] < c['s'] and cons[u][0]['s'] > c['s']]
            if stuck:
                return ('due-event-left-behind', 'a step started (seq %d) after queue(uid %s) had returned and consumed nothing although that '
                        'delay-0 event was still pending' % (c['s'], stuck[0]), list(stuck))
    # ---- delays
    for u in ret:
        d = inv[u][4]
        if d is not None:
            low = inv[u][5] + d
            if cons[u][0]['time'] < low:
                return ('consumed-before-due', 'uid %s queued with delay %s when the interpreter time was %s, consumed by a step at time %s' % (
                    u, d, inv[u][5], cons[u][0]['time']))
    # ---- lifecycle
    for k in ('before_run', 'after_run'):
        n = len([e for e in sim if e[2] == k])
        if n != 1:
            return ('lifecycle', '%s ran %d times' % (k, n))
    br = [e[0] for e in sim if e[2] == 'before_run'][0]
    ar = [e[0] for e in sim if e[2] == 'after_run'][0]
    first_cycle = [e[0] for e in sim if e[2] == 'cycle-begin']
    if (first_cycle and first_cycle[0] < br) or any(c['s'] > ar for c in calls if c['s'] <= mark):
        return ('lifecycle', 'a cycle ran before before_run or after after_run')
    # ---- pause
    unp = []        # (inv seq, ret seq) of unpause / stop / start operations
    stack = {}
    for e in sim:
        if e[2] in ('unpause-inv', 'stop-inv', 'start-inv'):
            stack[(e[1], e[2][:-4])] = e[0]
        elif e[2] in ('unpause-ret', 'stop-ret', 'start-ret'):
            unp.append((stack.pop((e[1], e[2][:-4])), e[0]))
    for k_, s0 in stack.items():
        unp.append((s0, 10 ** 9))
    # start() unpauses and launches: once the runner thread is running, the launch is over - a pause() that begins after that
    # is not undone by a start() call that is still on its way out
    born = [e[0] for e in sim if e[1] == 'runner']
    if born:
        starts = {e[0] for e in sim if e[2] == 'start-inv'}
        unp = [(i, min(r_, born[0]) if i in starts else r_) for i, r_ in unp]
    pause_inv = {}
    for e in sim:
        if e[2] == 'pause-inv':
            pause_inv[e[1]] = e[0]
        if e[2] == 'pause-ret':
            p = e[0]
            p0 = pause_inv.get(e[1], p)
            if any(i < p and p0 < r_ for i, r_ in unp):
                continue            # an unpause/stop/launch overlapped this pause() call
            nxt = min([i for i, r_ in unp if i > p] + [mark + 1])
            n = len([x for x in sim if x[2] == 'cycle-begin' and p < x[0] < nxt])
            # a pause() made by the runner thread itself (from a hook outside the cycle) finds no cycle under way
            if n > (0 if e[1] == 'runner' else 1):
                return ('runs-while-paused', '%d cycles began after pause() returned (seq %d) and before the next unpause()/stop() call (seq %d)' % (n, p, nxt))
    # ---- a runner that is parked on its 'unpaused' event only starts a cycle again because of an unpause() (or start());
    # being woken by stop() must not run another cycle
    wake = []
    stack2 = {}
    for e in sim:
        if e[2] in ('unpause-inv', 'start-inv'):
            stack2[(e[1], e[2][:-4])] = e[0]
        elif e[2] in ('unpause-ret', 'start-ret'):
            wake.append((stack2.pop((e[1], e[2][:-4])), e[0]))
    for k_, s0 in stack2.items():
        wake.append((s0, 10 ** 9))
    for e in sim:
        if e[2] == 'parked' and e[1] == 'runner':
            p = e[0]
            if any(i < p < r_ for i, r_ in wake):
                continue
            nxt = min([i for i, r_ in wake if i > p] + [mark + 1])
            late = [x for x in sim if x[2] == 'cycle-begin' and p < x[0] < nxt]
            if late:
                return ('cycle-while-paused', 'the runner was parked on its unpaused event (seq %d); a cycle began (seq %d) although no unpause() was '
                        'called in between (next unpause/start call: seq %s)' % (p, late[0][0], nxt if nxt <= mark else 'none'))
    # ---- a second runner started on the final interpreter: its hooks run once, it executes nothing, it stops by itself
    s2 = [e[0] for e in sim if e[2] == 'start2-inv']
    if s2:
        if not any(e[2] == 'wait2-ret' for e in sim):
            return ('stop-did-not-return', 'a runner started on a final statechart did not stop by itself')
        n2 = {k: len([e for e in sim if e[2] == k]) for k in ('before_run2', 'after_run2', 'cycle-begin2')}
        ran = [c for c in calls if s2[0] < c['s'] <= mark]
        if n2['before_run2'] != 1 or n2['after_run2'] != 1 or n2['cycle-begin2'] or ran:
            return ('runs-on-final-statechart', 'a runner started on a statechart that is already final: before_run x%d, after_run x%d, '
                    '%d cycles, %d calls of execute_once' % (n2['before_run2'], n2['after_run2'], n2['cycle-begin2'], len(ran)))
    # ---- stop / wait
    sr = [e[0] for e in sim if e[2] in ('stop-ret', 'wait-ret')]
    if not sr:
        return ('stop-did-not-return', 'the run ended without %s returning' % ('stop()' if ending == 'stop' else 'wait()'))
    late = [c for c in calls if sr[0] < c['s'] <= mark]
    if late:
        return ('executes-after-stop', 'execute_once was called (seq %d) after stop()/wait() returned (seq %d)' % (late[0]['s'], sr[0]))
    if ar > sr[0]:
        return ('lifecycle', 'after_run ran after stop()/wait() returned')
    return None


def evidence(H, sched):
    """facts about the history the known-finding classifiers need"""
    # K1: a thread was switched out inside the interpreter's queue code and, before it resumed, another
    # thread touched the queues (the runner consumed an event, or another queue() call completed).  Recorded per victim:
    # the uid whose own queue() call was interrupted that way, or the runner (interrupted between peeking and popping)
    overlap = False
    open_ = {}
    calling = {}            # client thread -> uid of the queue() call it is in
    overlapped_uids = set()
    runner_overlap = False
    for e in H:
        if e[2] == 'queue-inv':
            calling[e[1]] = e[3]
        # what counts is a *mutation* of the queues by somebody else while the victim is switched out inside the queue code:
        # the runner popping an event, or another client being inside its own queue() call.  A runner that merely looks at
        # the queues (a step that starts and consumes nothing) invalidates nothing the victim has computed
        if e[2] == 'm-consumed' or (e[1] in calling and e[2] in ('queue-inv', 'queue-ret', 'qc-preempt', 'qc-resume')):
            for t in open_:
                if t != e[1]:
                    overlap = True
                    if t == 'runner':
                        runner_overlap = True
                    elif t in calling:
                        overlapped_uids.add(calling[t])
        if e[2] == 'qc-preempt':
            open_[e[1]] = e[0]
        elif e[2] == 'qc-resume':
            open_.pop(e[1], None)
        if e[2] == 'queue-ret':
            calling.pop(e[1], None)
    died = [e[1] for e in H if e[2] == 'thread-died']
    died_in_queue = bool(died) and bool(open_ or overlap)
    stop_inv = [e[0] for e in H if e[2] == 'stop-inv']
    pause_after_stop = bool(stop_inv) and any(e[2] == 'pause-ret' and e[0] > stop_inv[0] for e in H)
    parked = bool(sched.deadlock) and any(n == 'runner' and why == 'Event.wait' for n, st, why in sched.deadlock)
    return {'queue_code_overlap': overlap or died_in_queue, 'pause_after_stop': pause_after_stop, 'runner_parked': parked,
            'overlapped_queue_calls': sorted(overlapped_uids), 'runner_interrupted_in_queue_code': runner_overlap,
            'died': [(n, c) for n, c, _ in sched.errors], 'died_inside_own_queue_call': [t for t in died if t in calling]}


def classify(res, record, tier):
    """Known findings (see /verif/known_findings.txt).
    K2: deadlock with the runner parked on its 'unpaused' event while a pause() completed after stop() had
    been invoked.  K1: the history shows a thread switched out inside the interpreter's queue code while
    another thread used the queues, and the violation disappears when that code is made atomic in the same
    schedule.  Coarse runs (no line pre-emption) can never be classified K1."""
    cls = res.violation['cls']
    ev = res.extra or {}
    if cls in ('deadlock', 'stop-did-not-return') and ev.get('runner_parked') and ev.get('pause_after_stop'):
        return 'K2'
    if cls in ('exception-in-thread', 'fifo', 'due-event-left-behind', 'event-lost', 'event-consumed-twice',
               'steps-not-reported-faithfully') \
            and ev.get('queue_code_overlap'):
        # the finding is specific: (a) the victim is a client's queue() call during which somebody else changed the queues (its
        # event lands at a stale position, after which the list is no longer sorted and later insertions go astray too, or
        # the call dies with IndexError), (b) the victim is the runner between peeking and popping while a client inserts.
        # Without such a mutation under a switched-out victim the violation is something else and is reported
        if cls == 'exception-in-thread':
            if not any(c == 'IndexError' and n in ev.get('died_inside_own_queue_call', []) for n, c in ev.get('died', [])):
                return None
        elif not (ev.get('runner_interrupted_in_queue_code') or ev.get('overlapped_queue_calls')):
            return None
        ATOMIC_QUEUE[0] = True
        try:
            r2 = run(Choices(record=record), tier)
        except Abandon:
            return None
        finally:
            ATOMIC_QUEUE[0] = False
        # "disappears": the same kind of violation no longer occurs once the queue code is atomic (the
        # modified schedule may run into the other known finding, which is not the question here)
        if r2.violation is None or r2.violation['cls'] != cls:
            return 'K1'
    return None


def coverage_extra(agg):
    return {'distinct_interleavings': len(agg['nontrivial']),
            'interleaving_measure': 'distinct sequences of (thread resumed, yield-point kind at which the previous thread was switched out)'}

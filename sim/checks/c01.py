"""C01 - transition selection follows the documented step semantics (DESIGN.md section 4, C01)."""
from sim import ref
from sim.chart import Cfg, swarm, gen_spec
from sim.engine import Result, Abandon, fp
from sim.semrun import Sim, standard_ops, legal_or_abandon, materialise
from sim.checks import common

ID = 'C01'
LEVEL = 'exploration'
BUDGET = {'quick': 20, 'thorough': 240}
STREAM_ORDER = ['ops', 'guards', 'moves', 'mat', 'chart', 'cfg']
RULE = (common.GEN + 'at most one external event is pending and code sends nothing, so the pending event is known (in a third of the runs code sends (delayed) events and the pending event comes from the queue model; in half of those the clock moves while guards are evaluated); per step the fired '
        'multiset, the consumed event and the event seen by every guard probe are compared with reference steps 2-5 computed '
        'from the real pre-step configuration; non-trivial = a step in which >= 2 enabled candidates competed; distinct = distinct '
        '(chart, configuration, event, enabled set)')
COMPONENTS = {'real': common.REAL, 'stub': common.STUB}
ASSUMPTIONS = common.ASSUME + ['steps for which the reference predicts NonDeterminismError / ConflictingTransitionsError are judged by C04, not here']
LEVEL_TEXT = ('one-step refinement against the executable reference model from the real pre-state, over seeded charts, histories and '
              'guard valuations; sampling, not proof')
LEVEL_NOTE = 'trusted: sim.ref.select (40 lines, written from docs/execution.rst and the property statement)'
TECHNIQUE = 'deterministic simulation: seeded chart+history+guard-outcome search, per-step refinement check against a reference model, shrinking, replay'


def run(ch, tier):
    res = Result()
    cfg = swarm(ch.s('cfg'), Cfg(pair_bias=3), tier)
    cfg.echo = ch.s('cfg').flag(1, 2)     # the text of some guards is also the entry/exit code of a state
    if ch.s('cfg').flag(1, 3):
        # the statechart also sends itself (delayed) events: "the next pending event" then comes from the queue model
        cfg.sends = cfg.delays = True
    sp = gen_spec(ch.s('chart'), cfg)
    sim = Sim(sp, statechart=materialise(sp, ch, res))
    cfp = fp(sp.fingerprint())
    if cfg.sends and ch.s('cfg').flag(1, 2):
        # the clock moves while the guards of a step are evaluated: the event the guards saw is the event the step consumes
        mv = ch.s('moves')

        def on_probe(kind):
            if kind == 'guard':
                d = mv.pick([0, 0, 1, 2, 5])
                if d:
                    sim.clock.advance(d)
                    res.stats['fault_clock_moved_inside_step'] += 1
        sim.P.on_probe = on_probe
    for r in standard_ops(sim, ch, tier, single_pending=not cfg.sends, advance=bool(cfg.sends)):
        res.stats['steps'] += 1
        if r.init:
            if r.exc is not None:
                raise Abandon('other: %s at initialisation' % r.exc_name())
            continue
        legal_or_abandon(sp, r.pre, 'C01')
        sel = r.sel
        if sel.err:
            res.stats['error_steps_skipped'] += 1
            if r.exc is None or type(r.exc).__name__ != sel.err:
                raise Abandon('C04: predicted %s, got %s' % (sel.err, r.exc_name()))
            continue
        if r.exc is not None and r.exc_name() not in ('NonDeterminismError', 'ConflictingTransitionsError'):
            raise Abandon('other: unexpected %s' % r.exc_name())
        ctx = dict(chart=sp.describe(), configuration=sp.canon(r.pre), pending=r.head and (r.head[3], r.head[2]),
                   truth={'t%d' % k: v for k, v in sorted(r.truth.items())}, step=r.k)
        exp = sorted(t.i for t in sel.fired)
        if r.exc is not None:
            return res.fail('selection-error', 'the documented semantics prescribes firing %s (no two of them in one region), '
                            'execute_once raised %s: %s' % (['t%d' % i for i in exp], r.exc_name(), str(r.exc).split('\n')[0][:90]), **ctx)
        got = sorted(r.fired_ids())
        if got != exp:
            return res.fail('selection', 'fired %s, the documented semantics prescribes %s' % (
                ['t%d' % i for i in got], ['t%d' % i for i in exp]), **ctx)
        consumed = r.consumed_uid if r.ms is not None and r.ms.event is not None else None
        if sel.consume:
            if consumed != r.head[2]:
                return res.fail('consumption', 'pending event %s not consumed by a step without eventless transition (consumed: %r)'
                                % (r.head[3], r.ms and r.ms.event), **ctx)
        else:
            if r.ms is not None and r.ms.event is not None:
                return res.fail('consumption', 'event %r consumed although %s' % (
                    r.ms.event, 'an eventless transition fired' if sel.eventless else 'no event was pending'), **ctx)
        if not sel.fired and not sel.consume and r.ms is not None:
            return res.fail('selection', 'a macro step was returned although nothing could happen', **ctx)
        for e in r.log:
            if e[0] == 'guard':
                t = sp.trans[e[1]]
                if t.event is None:
                    if e[2] is not None:
                        return res.fail('guard-event', 'guard of eventless t%d saw event %r' % (t.i, e[2]), **ctx)
                else:
                    want = (r.head[3], r.head[2]) if r.head else None
                    if e[2] != want:
                        return res.fail('guard-event', 'guard of t%d (on %s) saw %r, pending/consumed event is %r'
                                        % (t.i, t.event, e[2], want), **ctx)
        if len(sel.candidates) >= 2:
            res.nontrivial.add(fp((cfp, sorted(r.pre), r.head and r.head[3], sorted(t.i for t in sel.enabled))))
            for why in sel.reasons:
                res.stats['decided_by_' + why] += 1
            if len(sel.fired) >= 2:
                res.stats['parallel_fired'] += 1
            if res.sample is None:
                res.sample = dict(ctx, fired=exp)
    res.sim_time = float(sim.now())
    return res

"""Texts shared by the semantic checks."""
REAL = ['sismic.interpreter.Interpreter', 'sismic.code.PythonEvaluator', 'sismic.model.*']
STUB = ['interpreter clock (sim.probes.SimClock, advanced only by the simulator)',
        'bodies of guards / actions / entry / exit code: generated probe calls whose boolean outcome the simulator draws']
GEN = ('well-formed chart drawn per run (DESIGN.md section 2; swarm-randomised sizes and features; in one run out of six the state names are 1-3 characters long and contain each other), then a seeded history of '
       'queue / clock-advance / execute_once operations (one step in six through execute(max_steps=1)) with a truth value drawn for every guarded transition before each step; ')
ASSUME = ['charts are well-formed in the sense of DESIGN.md section 2', 'generated code is probe code (no exceptions, no re-entrancy)',
          'sampling: a clean batch is evidence, not proof']

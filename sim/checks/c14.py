"""C14 - clocks are monotonic and faithful.  DESIGN.md section 4, C14.

The wall-time source of SimulatedClock (module global ``sismic.clock.clock.time``) is replaced by
the simulator's scripted wall time.  Mode 1: wall time only moves between clock operations, the
reference clock predicts every read exactly.  Mode 2 (fault): wall time also moves between the
reads *inside* one operation; only the relaxed invariants are asserted.
"""
import warnings
from fractions import Fraction as F

from sim.engine import Result, fp

import sismic.clock.clock as clockmod
from sismic.clock import SimulatedClock, SynchronizedClock
from sismic.interpreter import Interpreter
from sismic.model import Statechart, CompoundState, BasicState, FinalState, Transition

ID = 'C14'
LEVEL = 'exploration'
BUDGET = {'quick': 12, 'thorough': 150}
BLOCK = 400
STREAM_ORDER = ['ops', 'wall']
RULE = ('seeded sequences (<=40) of start/stop/speed=/time=/read/execute_once on a real SimulatedClock whose '
        'wall-time source is scripted by the simulator (increments drawn from {0,1/64,1/4,1,3,64,4096}, in mode 2 '
        'also between the reads inside one operation); a second interpreter runs on a SynchronizedClock that follows the first and is stepped now and then, events (with and without delay) are queued on either interpreter between steps, the statechart sends itself an internal event that the next step finds due, and a SynchronizedClock on that second interpreter must show its last step time; non-trivial = the run read the clock while it was running '
        'after a speed change or an assignment and saw at least one rejected assignment or a speed-0 period; '
        'distinct = distinct operation sequence (kind+argument, mode)')
COMPONENTS = {'real': ['sismic.clock.SimulatedClock', 'sismic.clock.SynchronizedClock', 'sismic.interpreter.Interpreter'],
              'stub': ['time.time as seen by sismic.clock.clock (scripted wall time)']}
ASSUMPTIONS = ['all times and speeds are dyadic rationals small enough for float arithmetic to be exact',
               'a single thread uses the clock']

INCS = [F(0), F(1, 64), F(1, 4), F(1), F(3), F(64), F(4096)]
SPEEDS = [F(1), F(0), F(1, 2), F(2), F(3, 2), F(1, 4), F(8)]


class Wall:
    def __init__(self, ch, mode2):
        self.now = F(1000)
        self.ch = ch
        self.mode2 = mode2
        self.reads = 0
        self.intra = 0

    def __call__(self):
        # called by SimulatedClock through the patched module global
        self.reads += 1
        if self.mode2:
            d = self.ch.pick([F(0), F(0), F(1, 64), F(1), F(64)])
            if d:
                self.intra += 1
            self.now += d
        return float(self.now)


def _chart():
    sc = Statechart('toggle')
    sc.add_state(CompoundState('root', initial='a'), None)
    sc.add_state(BasicState('a'), 'root')
    sc.add_state(BasicState('b'), 'root')
    # leaving a sends an internal event: the next step finds it already due (and samples the clock like any other step)
    sc.add_transition(Transition('a', 'b', event='e', action="send('ping')"))
    sc.add_transition(Transition('b', 'a', event='e'))
    # 'fin' ends the statechart; steps of a final interpreter are steps like any other (they sample the clock)
    sc.add_state(FinalState('f'), 'root')
    sc.add_transition(Transition('a', 'f', event='fin'))
    sc.add_transition(Transition('b', 'f', event='fin'))
    return sc


def run(ch, tier):
    res = Result()
    ops = ch.s('ops')
    mode2 = ops.flag(1, 3)
    wall = Wall(ch.s('wall'), mode2)
    saved = clockmod.time
    clockmod.time = wall
    try:
        if mode2:
            return _run_relaxed(res, ops, wall, tier)
        return _run_exact(res, ops, wall, tier)
    finally:
        clockmod.time = saved


def _set_arg(ops, t):
    kind = ops.weighted([('ahead', 3), ('same', 1), ('behind', 3), ('stored', 2)])
    if kind == 'ahead':
        return t + ops.pick([F(1, 64), F(1), F(10), F(1000)])
    if kind == 'same':
        return t
    if kind == 'behind':
        return t - ops.pick([F(1, 64), F(1), F(10)])
    # just below the current value: only wrong if the guard compares with the stored base value
    return t - ops.pick([F(1, 64), F(1, 4)])


OPS = [('read', 4), ('start', 2), ('stop', 2), ('speed', 2), ('set', 3), ('step', 2), ('fstep', 1), ('queue', 1)]
DELAYS = [None, 0, 1, 5, 0.25]


def _run_exact(res, ops, wall, tier):
    """Mode 1: wall time moves only between operations; the reference predicts every read."""
    clock = SimulatedClock()
    t, running, speed = F(0), False, F(1)
    interp = Interpreter(_chart(), clock=clock)
    sync = SynchronizedClock(interp)
    # a second interpreter driven by a SynchronizedClock on the first, and a SynchronizedClock following that one: it shows
    # the time of the follower's last step, not the time of whatever the follower itself follows
    if ops.flag(1, 3):
        # the follower first lives on a clock of its own (and steps at time 500), then it is handed a SynchronizedClock, as the
        # deprecated bind_property_statechart(<interpreter>) does: from its next step on its time is what the new clock shows
        own = SimulatedClock()
        own.time = 500
        follower = Interpreter(_chart(), clock=own)
        follower.execute_once()
        follower.clock = SynchronizedClock(interp)
        res.stats['follower_re_clocked_after_a_step_at_a_later_time'] += 1
    else:
        follower = Interpreter(_chart(), clock=SynchronizedClock(interp))
    sync2 = SynchronizedClock(follower)
    follower_last = F(follower.time)
    at_start = []
    interp.attach(lambda me: at_start.append((me.time, sync.time)) if me.name == 'step started' else None)
    last_step_time = F(0)
    last_read = F(0)
    trace = []
    saw_reject = saw_zero = saw_running_read = changed = False
    n = ops.int(3, 40 if tier == 'quick' else 60)
    for k in range(n):
        d = ops.pick(INCS)
        wall.now += d
        if running:
            t += d * speed
            if speed == 0 and d:
                saw_zero = True
        op = ops.weighted(OPS)
        arg = None
        if op == 'start':
            clock.start()
            running = True
        elif op == 'stop':
            clock.stop()
            running = False
        elif op == 'speed':
            arg = ops.pick(SPEEDS)
            clock.speed = float(arg)
            speed = arg
            changed = True
            if clock.speed != float(arg):
                return res.fail('speed-not-stored', 'speed reads %r after assigning %r' % (clock.speed, float(arg)), trace=trace)
        elif op == 'set':
            arg = _set_arg(ops, t)
            raised = False
            deprecated = ops.flag(1, 4)
            try:
                if deprecated:
                    # the deprecated but supported way: assigning Interpreter.time moves the clock (and nothing else)
                    with warnings.catch_warnings():
                        warnings.simplefilter('ignore')
                        interp.time = float(arg)
                    res.stats['clock_set_through_the_deprecated_interpreter_time_setter'] += 1
                else:
                    clock.time = float(arg)
            except ValueError:
                raised = True
            here = trace + [(op, float(arg), float(d))]
            if arg < t and not raised:
                return res.fail('backward-assignment-accepted',
                                'time=%s accepted while the clock showed %s' % (float(arg), float(t)), trace=here)
            if arg >= t and raised:
                return res.fail('valid-assignment-rejected',
                                'time=%s rejected while the clock showed %s' % (float(arg), float(t)), trace=here)
            if raised:
                saw_reject = True
            else:
                t = arg
                changed = True
        elif op == 'step':
            if ops.flag(1, 12):
                interp.queue('fin')
                res.stats['statechart_driven_to_its_final_state'] += 1
            else:
                interp.queue('e')
            ms = interp.execute_once()
            if interp.final:
                res.stats['steps_of_a_final_interpreter'] += 1
            last_step_time = t
            if at_start and at_start[-1][0] != at_start[-1][1]:
                return res.fail('synchronized-clock', "while 'step started' (time=%r) was dispatched the SynchronizedClock read %r" % at_start[-1], trace=trace)
            if F(interp.time) != t or (ms is not None and F(ms.time) != t):
                return res.fail('step-time', 'interpreter time %r / MacroStep.time %r for a step at clock %r'
                                % (interp.time, ms and ms.time, float(t)), trace=trace)
        elif op == 'queue':
            # queueing (with or without a delay) is not a step: nobody's time moves
            arg = ops.pick(DELAYS)
            who = follower if ops.flag(1, 4) else interp
            if arg is None:
                who.queue('late')
            else:
                who.queue('late', delay=arg)
            arg = F(arg or 0)
            res.stats['events_queued_with_a_delay_between_steps'] += 1
        elif op == 'fstep':
            follower.queue('e')
            fms = follower.execute_once()
            follower_last = last_step_time
            if F(follower.time) != follower_last or (fms is not None and F(fms.time) != follower_last):
                return res.fail('synchronized-clock', 'an interpreter on a SynchronizedClock stepped at time %r, the interpreter it follows '
                                'last stepped at %r' % (follower.time, float(follower_last)), trace=trace)
        trace.append((op, None if arg is None else float(arg), float(d)))
        res.stats['op_' + op] += 1
        if F(sync2.time) != follower_last or sync2.time != follower.time:
            return res.fail('synchronized-clock', 'a SynchronizedClock on the following interpreter reads %r; that interpreter last stepped at %r '
                            '(the interpreter it follows itself is at %r)' % (sync2.time, float(follower_last), interp.time), trace=trace)
        if follower_last != last_step_time:
            res.stats['chained_synchronized_clock_checked_while_the_two_interpreters_differ'] += 1
        v = clock.time
        if F(v) != t:
            return res.fail('read-differs-from-reference',
                            'after %s the clock reads %r, the reference clock %r' % (op, v, float(t)),
                            trace=trace, reference={'t': float(t), 'running': running, 'speed': float(speed)})
        if F(v) < last_read:
            return res.fail('went-backwards', 'clock read %r after %r' % (v, float(last_read)), trace=trace)
        last_read = F(v)
        if running and changed:
            saw_running_read = True
        if sync.time != interp.time or F(sync.time) != last_step_time:
            return res.fail('synchronized-clock', 'SynchronizedClock reads %r, last step time %r, interpreter.time %r'
                            % (sync.time, float(last_step_time), interp.time), trace=trace)
    res.stats['mode1_runs'] += 1
    res.stats['rejected_assignments'] += int(saw_reject)
    res.sim_time = float(t)
    if saw_running_read and (saw_reject or saw_zero):
        res.nontrivial.add(fp((1, trace)))
        res.sample = {'mode': 1, 'ops(op,arg,wall_increment_before)': trace[:12], 'final_clock': float(t)}
    return res


def _run_relaxed(res, ops, wall, tier):
    """Mode 2 (fault): wall time also moves between the reads inside one operation.  Only the
    invariants that do not depend on where inside the operation time passed are asserted."""
    clock = SimulatedClock()
    running = False
    interp = Interpreter(_chart(), clock=clock)
    sync = SynchronizedClock(interp)
    follower = Interpreter(_chart(), clock=SynchronizedClock(interp))
    sync2 = SynchronizedClock(follower)
    last_read = F(clock.time)
    frozen = last_read       # value a stopped clock must keep showing (None while running)
    trace = []
    saw_reject = saw_running_read = changed = False
    n = ops.int(3, 40 if tier == 'quick' else 60)

    def read(why):
        nonlocal last_read
        v = F(clock.time)
        if v < last_read:
            return res.fail('went-backwards', 'clock read %r after %r (%s)' % (float(v), float(last_read), why), trace=trace)
        if frozen is not None and v != frozen:
            return res.fail('moved-while-stopped', 'stopped clock shows %r, showed %r before (%s)'
                            % (float(v), float(frozen), why), trace=trace)
        last_read = v
        return None

    for k in range(n):
        d = ops.pick(INCS)
        wall.now += d
        op = ops.weighted(OPS)
        arg = None
        if op == 'start':
            clock.start()
            running = True
            frozen = None
        elif op == 'stop':
            clock.stop()
            if running:
                frozen = None
                running = False
                trace.append((op, None, float(d)))
                if read('after stop'):
                    return res
                frozen = last_read
                trace.pop()
        elif op == 'speed':
            arg = ops.pick(SPEEDS)
            clock.speed = float(arg)
            changed = True
        elif op == 'set':
            arg = _set_arg(ops, last_read)
            raised = False
            try:
                clock.time = float(arg)
            except ValueError:
                raised = True
            here = trace + [(op, float(arg), float(d))]
            if arg < last_read and not raised:
                return res.fail('backward-assignment-accepted',
                                'time=%s accepted although %s had already been read' % (float(arg), float(last_read)), trace=here)
            if not running and arg >= last_read and raised:
                return res.fail('valid-assignment-rejected',
                                'time=%s rejected while the stopped clock showed %s' % (float(arg), float(last_read)), trace=here)
            if raised:
                saw_reject = True
            else:
                changed = True
                if not running:
                    frozen = arg
                v = F(clock.time)
                if v < arg:
                    return res.fail('assignment-not-effective', 'time=%s accepted, clock then reads %s' % (float(arg), float(v)), trace=here)
        elif op == 'step':
            interp.queue('e')
            lo = last_read
            ms = interp.execute_once()
            if F(interp.time) < lo:
                return res.fail('went-backwards', 'step time %r after %r had been read' % (interp.time, float(lo)), trace=trace)
            if ms is not None and ms.time != interp.time:
                return res.fail('step-time', 'MacroStep.time %r != interpreter.time %r' % (ms.time, interp.time), trace=trace)
            last_read = max(last_read, F(interp.time))
        elif op == 'queue':
            arg = ops.pick(DELAYS)
            who = follower if ops.flag(1, 4) else interp
            if arg is None:
                who.queue('late')
            else:
                who.queue('late', delay=arg)
            arg = F(arg or 0)
        elif op == 'fstep':
            follower.queue('e')
            follower.execute_once()
            if follower.time != interp.time:
                return res.fail('synchronized-clock', 'an interpreter on a SynchronizedClock stepped at time %r, the interpreter it follows '
                                'last stepped at %r' % (follower.time, interp.time), trace=trace)
        if sync2.time != follower.time:
            return res.fail('synchronized-clock', 'a SynchronizedClock on the following interpreter reads %r; that interpreter last stepped at %r'
                            % (sync2.time, follower.time), trace=trace)
        trace.append((op, None if arg is None else float(arg), float(d)))
        res.stats['op_' + op] += 1
        if read('after ' + op):
            return res
        if running and changed:
            saw_running_read = True
        if sync.time != interp.time:
            return res.fail('synchronized-clock', 'SynchronizedClock reads %r, interpreter.time %r'
                            % (sync.time, interp.time), trace=trace)
    res.stats['mode2_runs'] += 1
    res.stats['fault_wall_moved_inside_operation'] += wall.intra
    res.stats['rejected_assignments'] += int(saw_reject)
    res.sim_time = float(last_read)
    if saw_running_read and saw_reject and wall.intra:
        res.nontrivial.add(fp((2, trace, wall.intra)))
        res.sample = {'mode': 2, 'ops(op,arg,wall_increment_before)': trace[:12], 'intra_operation_time_moves': wall.intra}
    return res

LEVEL_TEXT = ('seeded exploration of clock-operation sequences against an exact 10-line reference clock with the wall-time '
              'source owned by the simulator; sampling, not proof - adequate because the clock has 4 fields and every '
              'operation is reached with every predecessor within a few hundred runs')
LEVEL_NOTE = 'trusted: float arithmetic is exact on the dyadic values used; the scripted wall time is the only time source SimulatedClock reads'
TECHNIQUE = 'deterministic simulation (scripted wall clock, intra-operation time faults) + reference model, seeded search with shrinking'

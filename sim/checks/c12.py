"""C12 - YAML import accepts only structurally sound statecharts (DESIGN.md section 4, C12)."""
import copy
from io import StringIO

import ruamel.yaml as yaml

from sim.chart import Cfg, swarm, gen_spec, to_dict
from sim.engine import Result, fp
from sim.checks import common

from sismic.exceptions import StatechartError
import tempfile
from sismic.io import import_from_yaml
from sismic.model import Statechart, CompoundState, OrthogonalState, BasicState, HistoryStateMixin, FinalState

ID = 'C12'
LEVEL = 'fault_enumeration'
RUN_LIMIT_CPU_S = 600     # one run enumerates hundreds of fault positions in the thorough tier
BUDGET = {'quick': 25, 'thorough': 300}
BLOCK = 4
STREAM_ORDER = ['faults', 'chart', 'cfg']
RULE = ('the stored document is a valid generated statechart description dumped to YAML; the simulator corrupts it with the structural faults '
        'the property lists (duplicate state name; dangling transition target; transitions on a final / history state; history state under an '
        'orthogonal state or as root; initial naming a sibling-less non-child, a grandchild, an unknown state; memory naming itself, a '
        'non-sibling, an unknown state; unknown key at statechart / state / transition / contract level; unknown type (a word, the empty string, another spelling of a known type, a boolean); unknown priority word; '
        'both states and parallel states; missing name; missing root state; missing statechart) at EVERY applicable position for single faults '
        '(thorough; 30 drawn positions in quick) plus drawn combinations of 2-3 faults; in a quarter of the runs every document is handed over as a file (import_from_yaml(filepath=...)); a faulted document must raise StatechartError and '
        'nothing else, the unfaulted document must be accepted and pass an independent structural audit. non-trivial = one (document, fault '
        'kind, position); distinct = distinct (chart, fault kind, position)')
COMPONENTS = {'real': ['sismic.io.import_from_yaml', 'sismic.io.datadict.import_from_dict', 'schema', 'ruamel.yaml parser',
                       'Statechart.add_state / add_transition / validate'],
              'stub': ['the stored document (generated, then corrupted by the simulator)']}
ASSUMPTIONS = ['YAML syntax damage is out of scope (the property lists structural faults only)',
               'no schedule or clock dimension: this is fault injection into stored data read back by the code under test']
LEVEL_TEXT = ('single-fault positions are enumerated completely per sampled document in the thorough tier; documents are sampled; '
              'multi-fault combinations are sampled')
LEVEL_NOTE = 'trusted: the fault injectors (each produces a document that breaks exactly the rule it names) and the 40-line structural audit'
TECHNIQUE = 'fault injection into stored documents: enumeration of every single structural corruption position, exception-class oracle + structural audit'


def dump(doc):
    out = StringIO()
    y = yaml.YAML(typ='safe', pure=True)
    y.default_flow_style = False
    y.width = 4096
    y.dump(doc, out)
    return out.getvalue()


def walk(state, parent=None, depth=1, out=None):
    """list of (state dict, parent dict or None, kind)"""
    if out is None:
        out = []
    t = state.get('type')
    kind = {'final': 'final', 'shallow history': 'history', 'deep history': 'history'}.get(t)
    if kind is None:
        kind = 'compound' if 'states' in state else ('orthogonal' if 'parallel states' in state else 'basic')
    out.append((state, parent, kind))
    for k in ('states', 'parallel states'):
        for c in (state.get(k) or []):
            walk(c, state, depth + 1, out)
    return out


def kids(s):
    return s.get('states', []) + s.get('parallel states', [])


def fault_list(doc):
    """[(kind, position label, function(doc_copy) -> None)] ; functions address nodes by index path"""
    root = doc['statechart']['root state']
    nodes = walk(root)
    names = [s['name'] for s, _, _ in nodes]
    out = []

    def at(i):
        return lambda d: walk(d['statechart']['root state'])[i][0]

    for i, (s, p, kind) in enumerate(nodes):
        get = at(i)
        n = s['name']
        others = [x for x in names if x != n]
        if others:
            out.append(('duplicate-state-name', n, lambda d, get=get, o=others[(i * 7) % len(others)]: get(d).__setitem__('name', o)))
        out.append(('missing-name', n, lambda d, get=get: get(d).pop('name')))
        out.append(('unknown-state-key', n, lambda d, get=get: get(d).__setitem__('colour', 'red')))
        out.append(('unknown-state-key-without-value', n, lambda d, get=get: get(d).__setitem__('colour', None)))
        out.append(('unknown-type', n, lambda d, get=get: get(d).__setitem__('type', 'choice')))
        # other things that are not one of the three known types: the empty string, another spelling, a boolean
        out.append(('unknown-type-empty', n, lambda d, get=get: get(d).__setitem__('type', '')))
        out.append(('unknown-type-other-spelling', n, lambda d, get=get, k=kind: get(d).__setitem__('type', 'Final' if k != 'history' else 'history')))
        out.append(('unknown-type-boolean', n, lambda d, get=get: get(d).__setitem__('type', False)))
        if kind in ('final', 'history'):
            out.append(('transition-on-%s-state' % kind, n, lambda d, get=get, tgt=names[0]: get(d).__setitem__('transitions', [{'target': tgt, 'event': 'ea'}])))
        if kind in ('final', 'history'):
            # the same faults on a typed state that also lists substates (which a final / history state cannot have): the
            # document still declares a final / history state and still breaks the rule
            sub = {'states': [{'name': 'LEFTX'}]} if i % 2 else {'parallel states': [{'name': 'LEFTX'}, {'name': 'LEFTY'}]}
            out.append(('transition-on-%s-state-listing-substates' % kind, n, lambda d, get=get, tgt=names[0], sub=sub: (
                get(d).__setitem__('transitions', [{'target': tgt, 'event': 'ea'}]), get(d).update(copy.deepcopy(sub)))))
        if kind == 'history':
            out.append(('memory-self-listing-substates', n, lambda d, get=get, n=n: (
                get(d).__setitem__('memory', n), get(d).__setitem__('states', [{'name': 'LEFTX'}]))))
            out.append(('memory-unknown-listing-substates', n, lambda d, get=get: (
                get(d).__setitem__('memory', 'NOSUCH'), get(d).__setitem__('states', [{'name': 'LEFTX'}]))))
        if kind == 'orthogonal':
            out.append(('history-under-orthogonal-listing-substates', n, lambda d, get=get, m=kids(s)[0]['name']: get(d)['parallel states'].append(
                {'name': 'HISTX', 'type': 'deep history', 'memory': m, 'states': [{'name': 'LEFTX'}]})))
            out.append(('history-under-orthogonal', n, lambda d, get=get, m=kids(s)[0]['name']: get(d)['parallel states'].append(
                {'name': 'HISTX', 'type': 'shallow history', 'memory': m})))
            out.append(('deep-history-under-orthogonal', n, lambda d, get=get: get(d)['parallel states'].append(
                {'name': 'HISTX', 'type': 'deep history'})))
            out.append(('both-states-and-parallel-states', n, lambda d, get=get: get(d).__setitem__('states', [{'name': 'EXTRAX'}])))
            out.append(('both-states-and-parallel-states-the-former-without-value', n, lambda d, get=get: get(d).__setitem__('states', None)))
        if kind == 'compound':
            out.append(('both-states-and-parallel-states', n, lambda d, get=get: get(d).__setitem__('parallel states', [{'name': 'EXTRAX'}])))
            out.append(('initial-unknown', n, lambda d, get=get: get(d).__setitem__('initial', 'NOSUCH')))
            out.append(('initial-self', n, lambda d, get=get, n=n: get(d).__setitem__('initial', n)))
            grand = [g['name'] for c in kids(s) for g in kids(c)]
            if grand:
                out.append(('initial-grandchild', n, lambda d, get=get, g=grand[0]: get(d).__setitem__('initial', g)))
            mine = set(c['name'] for c in kids(s))
            non = [x for x in names if x not in mine and x != n and x not in grand]
            if non:
                out.append(('initial-non-child', n, lambda d, get=get, o=non[(i * 5) % len(non)]: get(d).__setitem__('initial', o)))
        if kind == 'history':
            out.append(('memory-self', n, lambda d, get=get, n=n: get(d).__setitem__('memory', n)))
            out.append(('memory-unknown', n, lambda d, get=get: get(d).__setitem__('memory', 'NOSUCH')))
            sibs = set(c['name'] for c in kids(p))
            non = [x for x in names if x not in sibs]
            if non:
                out.append(('memory-non-sibling', n, lambda d, get=get, o=non[(i * 3) % len(non)]: get(d).__setitem__('memory', o)))
        for j, t in enumerate(s.get('transitions', [])):
            lab = '%s/t%d' % (n, j)
            out.append(('dangling-target', lab, lambda d, get=get, j=j: get(d)['transitions'][j].__setitem__('target', 'NOSUCH')))
            out.append(('dangling-target-empty-name', lab, lambda d, get=get, j=j: get(d)['transitions'][j].__setitem__('target', '')))
            out.append(('unknown-transition-key', lab, lambda d, get=get, j=j: get(d)['transitions'][j].__setitem__('delay', 3)))
            out.append(('unknown-transition-key-without-value', lab, lambda d, get=get, j=j: get(d)['transitions'][j].__setitem__('delay', None)))
            out.append(('unknown-priority', lab, lambda d, get=get, j=j: get(d)['transitions'][j].__setitem__('priority', 'urgent')))
            for k, c in enumerate(t.get('contract', [])):
                out.append(('unknown-contract-key', lab + '/c%d' % k, lambda d, get=get, j=j, k=k: get(d)['transitions'][j]['contract'].__setitem__(k, {'sometimes': 'True'})))
        for k, c in enumerate(s.get('contract', [])):
            out.append(('unknown-contract-key', n + '/c%d' % k, lambda d, get=get, k=k: get(d)['contract'].__setitem__(k, {'never': 'False'})))
    out.append(('history-as-root', '-', lambda d: d['statechart'].__setitem__('root state', {'name': 'HROOT', 'type': 'shallow history'})))
    out.append(('history-as-root-listing-substates', '-', lambda d: d['statechart'].__setitem__(
        'root state', {'name': 'HROOT', 'type': 'shallow history', 'states': [{'name': 'LEFTX'}]})))
    out.append(('deep-history-as-root', '-', lambda d: d['statechart'].__setitem__('root state', {'name': 'HROOT', 'type': 'deep history'})))
    out.append(('unknown-statechart-key', '-', lambda d: d['statechart'].__setitem__('version', 2)))
    out.append(('unknown-statechart-key-without-value', '-', lambda d: d['statechart'].__setitem__('version', None)))
    out.append(('unknown-top-key-without-value', '-', lambda d: d.__setitem__('extra', None)))
    out.append(('unknown-top-key', '-', lambda d: d.__setitem__('extra', 1)))
    out.append(('missing-statechart-name', '-', lambda d: d['statechart'].pop('name')))
    out.append(('missing-root-state', '-', lambda d: d['statechart'].pop('root state')))
    out.append(('missing-statechart', '-', lambda d: (d.__setitem__('chart', d.pop('statechart')))))
    return out


def audit(sc):
    """independent structural audit of an accepted statechart; None or a reason"""
    names = sc.states
    if len(set(names)) != len(names):
        return 'duplicate names'
    roots = [n for n in names if sc.parent_for(n) is None]
    if len(roots) != 1:
        return 'roots: %r' % roots
    for n in names:
        seen = set()
        x = n
        while x is not None:
            if x in seen:
                return 'cycle through %r' % x
            seen.add(x)
            x = sc.parent_for(x)
        p = sc.parent_for(n)
        s = sc.state_for(n)
        if p is not None and n not in sc.children_for(p):
            return '%r not among the children of its parent %r' % (n, p)
        if isinstance(s, HistoryStateMixin):
            if p is None or not isinstance(sc.state_for(p), CompoundState):
                return 'history state %r is not inside a compound state (parent %r)' % (n, p)
            if s.memory is not None and (s.memory == n or s.memory not in sc.children_for(p)):
                return 'memory %r of %r is not another sibling' % (s.memory, n)
        if isinstance(s, CompoundState) and s.initial is not None and s.initial not in sc.children_for(n):
            return 'initial %r of %r is not a direct child' % (s.initial, n)
        if sc.children_for(n) and not isinstance(s, (CompoundState, OrthogonalState)):
            return '%r (%s) has children' % (n, type(s).__name__)
    for t in sc.transitions:
        if t.source not in names or not isinstance(sc.state_for(t.source), (BasicState, CompoundState, OrthogonalState)):
            return 'transition from %r which may not own transitions' % t.source
        if t.target is not None and t.target not in names:
            return 'transition to unknown state %r' % t.target
    return None


VIA_FILE = [False]       # this run hands its documents over as files (import_from_yaml(filepath=...))


def attempt(doc):
    try:
        if VIA_FILE[0]:
            with tempfile.NamedTemporaryFile('w', suffix='.yaml') as f:
                f.write(dump(doc))
                f.flush()
                sc = import_from_yaml(filepath=f.name)
        else:
            sc = import_from_yaml(dump(doc))
        return 'accepted', sc
    except StatechartError as e:
        return 'StatechartError', e
    except Exception as e:
        return type(e).__name__, e


def run(ch, tier):
    res = Result()
    cfg = swarm(ch.s('cfg'), Cfg(contracts=True, sends=False), tier)
    cfg.max_states = min(cfg.max_states, 12)
    if ch.s('cfg').flag(1, 2):
        cfg.history = cfg.force_history = True
        cfg.max_states = max(cfg.max_states, 8)
    sp = gen_spec(ch.s('chart'), cfg)
    VIA_FILE[0] = ch.s('cfg').flag(1, 4)
    res.stats['runs_importing_from_files'] += int(VIA_FILE[0])
    doc = to_dict(sp)
    # valid variation: a history state may omit its memory
    for sd, _, kind in walk(doc['statechart']['root state']):
        if kind == 'history' and ch.s('faults').choice(3) == 1:
            sd.pop('memory', None)
            res.stats['valid_history_without_memory'] += 1
    declared = sorted(sp.states)
    if ch.s('faults').choice(4) == 1:
        # valid variation: one state is called "<name> " (or " <name>") everywhere it is declared or referred to
        victim = ch.s('faults').pick(sorted(sp.states))
        newname = victim + ' ' if ch.s('faults').flag(1, 2) else ' ' + victim

        def ren(d):
            if d.get('name') == victim:
                d['name'] = newname
            for k in ('initial', 'memory'):
                if d.get(k) == victim:
                    d[k] = newname
            for t in d.get('transitions', []):
                if t.get('target') == victim:
                    t['target'] = newname
            for k in ('states', 'parallel states'):
                for c in d.get(k, []):
                    ren(c)
        ren(doc['statechart']['root state'])
        declared = sorted(newname if n == victim else n for n in sp.states)
        res.stats['valid_name_with_edge_whitespace'] += 1
    cfp = fp(sp.fingerprint())
    outcome, sc = attempt(doc)
    if outcome != 'accepted':
        return res.fail('valid-document-rejected', 'a valid document was rejected with %s: %s' % (outcome, str(sc)[:120]),
                        document=dump(doc)[:2500])
    why = audit(sc)
    if why:
        return res.fail('accepted-chart-unsound', 'accepted statechart fails the audit: %s' % why, document=dump(doc)[:2500])
    if declared != sc.states or len(sc.transitions) != len(sp.trans):
        return res.fail('accepted-chart-differs', 'accepted statechart has states %r / %d transitions, document declares %r / %d' % (
            sc.states, len(sc.transitions), declared, len(sp.trans)), document=dump(doc)[:2500])
    faults = fault_list(doc)
    fs = ch.s('faults')
    if tier == 'thorough':
        chosen = list(range(len(faults)))
        res.stats['documents_with_all_positions_enumerated'] += 1
    else:
        always = [i for i, f in enumerate(faults) if f[1] == '-']
        rest = [i for i, f in enumerate(faults) if f[1] != '-']
        chosen = sorted(set(always + [rest[fs.choice(len(rest))] for _ in range(min(30, len(rest)))]))
    for i in chosen:
        kind, pos, fn = faults[i]
        d = copy.deepcopy(doc)
        fn(d)
        outcome, x = attempt(d)
        res.stats['fault_' + kind] += 1
        if outcome != 'StatechartError':
            return res.fail('fault-accepted' if outcome == 'accepted' else 'wrong-exception',
                            'document with fault %s at %s: %s' % (kind, pos, 'accepted as a Statechart' if outcome == 'accepted'
                                                                 else 'raised %s: %s' % (outcome, str(x)[:100])),
                            fault=kind, position=pos, document=dump(d)[:2500])
        res.nontrivial.add(fp((cfp, kind, pos)))
    # combinations of 2-3 faults
    for _ in range(3 if tier == 'quick' else 10):
        combo = sorted(set(fs.choice(len(faults)) for _ in range(fs.int(2, 3))))
        d = copy.deepcopy(doc)
        applied = []
        for i in combo:
            try:
                faults[i][2](d)
                applied.append(faults[i][0] + '@' + faults[i][1])
            except (KeyError, IndexError):
                pass        # an earlier fault removed the node this one addresses
        if not applied:
            continue
        outcome, x = attempt(d)
        res.stats['fault_combinations'] += 1
        if outcome != 'StatechartError':
            return res.fail('fault-accepted' if outcome == 'accepted' else 'wrong-exception',
                            'document with faults %s: %s' % (applied, 'accepted' if outcome == 'accepted' else 'raised %s: %s' % (outcome, str(x)[:100])),
                            faults=applied, document=dump(d)[:2500])
        res.nontrivial.add(fp((cfp, tuple(applied))))
    if res.sample is None:
        res.sample = {'chart': sp.describe()[:10], 'single_fault_positions': len(faults), 'explored': len(chosen),
                      'example_faults': [(f[0], f[1]) for f in faults[:6]]}
    return res

"""C10 - property-statechart monitoring: complete, ordered, fail-fast, non-intrusive (DESIGN.md section 4, C10)."""
import functools
from fractions import Fraction as F

from sim.chart import Cfg, swarm, gen_spec, tid
from sim.engine import Result, Abandon, fp
from sim.probes import ev, SimClock, SkewClock
from sim.semrun import Sim, standard_ops, replay_script, legal_or_abandon, event_uid
from sim.checks import common
from sim.checks.c09 import sig

from sismic import exceptions as sx
from sismic.interpreter import Interpreter
from sismic.model import (Statechart, CompoundState, BasicState, FinalState, Transition, InternalEvent, MetaEvent)

ID = 'C10'
LEVEL = 'fault_enumeration'
RUN_LIMIT_CPU_S = 600     # one run enumerates hundreds of fault positions in the thorough tier
BUDGET = {'quick': 25, 'thorough': 300}
BLOCK = 8
STREAM_ORDER = ['ops', 'guards', 'faults', 'chart', 'cfg']
RULE = (common.GEN + 'the monitored chart sends events (with delays; in a third of the runs also events without any parameter, so that two sent in one step compare equal) and notifies, in a third of the runs it carries contracts that are checked; listeners read every documented attribute of every meta-event; in a third of the runs a one-shot listener attached in front of the others detaches itself while it is told its k-th meta-event; in a third of the runs the monitored interpreter is a subclass of Interpreter with its own constructor and a property statechart is bound with the default interpreter_klass; in half of the runs the property statecharts arm a far-away timeout on themselves (a pending delayed internal event of their own); listeners: a plain recording callable (attach), two recorders with value equality that compare equal when they are attached, a recording '
        'property statechart (bind_property_statechart, built through interpreter_klass so that it shares a recorder) and a tripwire property '
        'statechart that becomes final at its k-th meta-event. Run A (no tripwire): the stream both recorders saw must equal the stream derived (every `transition processed` of a transition that names an event carries the event the macro step consumed) '
        'from the returned micro steps, the property chart own clock must equal the monitored step time, and the macro steps must equal those '
        'of a run without any listener. Runs B_k, for EVERY k up to the number of meta-events of run A (thorough) or 10 drawn k (quick): the '
        'call in which meta-event k is emitted raises PropertyStatechartError and the monitored probe log equals the prefix of A up to that '
        'emission. Run D (half of the runs): a property statechart that reacts to no meta-event and only arms a timeout on itself (a delayed internal event, delay drawn) must fail the run at the first meta-event of the first step whose time has reached the deadline, and must change nothing when the deadline is never reached. non-trivial = one tripwire position; distinct = distinct (chart, k, meta-event at k)')
COMPONENTS = {'real': common.REAL + ['sismic.interpreter.listener.PropertyStatechartListener', 'sismic.clock.SynchronizedClock',
                                     'property-statechart interpreters (real Interpreter instances)'], 'stub': common.STUB}
ASSUMPTIONS = common.ASSUME + ["the deprecated 'delayed event sent' meta-event is tolerated (neither required nor forbidden)"]
LEVEL_TEXT = ('per sampled (chart, history) every position k at which a property statechart can turn final is enumerated in the thorough tier; '
              'charts and histories are sampled')
LEVEL_NOTE = 'trusted: the stream builder (30 lines) that derives the documented meta-events from returned micro steps'
TECHNIQUE = 'deterministic simulation with fault injection: fault-free twin + enumeration of the meta-event at which a property chart turns final'

META = ['step started', 'step ended', 'event consumed', 'event sent', 'state exited', 'state entered',
        'transition processed', 'delayed event sent', 'na', 'nb']


ARM = "send('never', delay=10 ** 9)"     # a property statechart may arm a timeout on itself: a pending delayed internal event


def _recorder_chart(armed=False):
    sc = Statechart('recorder')
    sc.add_state(CompoundState('r', initial='s'), None)
    sc.add_state(BasicState('s', on_entry=ARM if armed else None), 'r')
    for n in META:
        sc.add_transition(Transition('s', None, event=n, action='Q.rec(event, time)'))
    return sc


def _tripwire_chart(armed=False):
    sc = Statechart('tripwire', preamble='n = 0')
    sc.add_state(CompoundState('r', initial='s'), None)
    sc.add_state(BasicState('s', on_entry=ARM if armed else None), 'r')
    sc.add_state(FinalState('f'), 'r')
    for n in META:
        sc.add_transition(Transition('s', None, event=n, action='n = n + 1'))
    sc.add_transition(Transition('s', 'f', guard='n >= K'))
    return sc


def _timebomb_chart():
    """a property statechart that reacts to no meta-event at all: entering its first state arms a timeout on itself (a delayed
    internal event) and the timeout makes it final.  It is run at every meta-event, so it fails at the first meta-event of the
    first monitored step whose time has reached the deadline"""
    sc = Statechart('timebomb')
    sc.add_state(CompoundState('r', initial='s'), None)
    sc.add_state(BasicState('s', on_entry="send('boom', delay=D)"), 'r')
    sc.add_state(FinalState('f'), 'r')
    sc.add_transition(Transition('s', 'f', event='boom'))
    return sc


TIMEBOMB = _timebomb_chart()


def _idle_chart():
    """a property statechart without any need: bound with the documented default (interpreter_klass omitted -> Interpreter)"""
    sc = Statechart('never')
    sc.add_state(CompoundState('r', initial='s'), None)
    sc.add_state(BasicState('s'), 'r')
    return sc


IDLE = _idle_chart()


class Monitored(Interpreter):
    """the monitored interpreter may be a subclass with its own constructor: property statecharts are still run by
    Interpreter unless interpreter_klass says otherwise"""
    built = []

    def __init__(self, statechart, *, tag, **kw):
        super().__init__(statechart, **kw)
        Monitored.built.append(tag)


RECORDERS = {False: _recorder_chart(), True: _recorder_chart(True)}
TRIPWIRES = {False: _tripwire_chart(), True: _tripwire_chart(True)}


def norm(name, data):
    """comparable rendering of a meta-event"""
    out = []
    for k, v in sorted(data.items()):
        if k == 'event':
            out.append((k, None if v is None else (type(v).__name__, v.name, v.data.get('uid'), v.data.get('delay'))))
        else:
            out.append((k, v))
    return (name, tuple(out))


DOCUMENTED = {'step started': ('time',), 'step ended': (), 'event consumed': ('event',), 'event sent': ('event',),
              'state exited': ('state',), 'state entered': ('state',), 'transition processed': ('source', 'target', 'event')}


def read_attributes(me):
    """what a listener does with a meta-event: read its documented attributes (an eventless transition has event None, an
    internal one target None)"""
    return tuple((k, getattr(me, k) is me.data.get(k, KeyError)) for k in DOCUMENTED.get(me.name, ()))


class Q:
    def __init__(self):
        self.seen = []

    def rec(self, event, time):
        read_attributes(event)
        self.seen.append((norm(event.name, event.data), time))


class OneShot:
    def __init__(self, it, k):
        self.it, self.k, self.n = it, k, 0

    def __call__(self, me):
        self.n += 1
        if self.n == self.k:
            self.it.detach(self)


class Plain:
    def __init__(self, sim):
        self.sim = sim
        self.seen = []      # (normalised meta-event, len(P.log) at emission)

    def __call__(self, me):
        self.attrs_ok = getattr(self, 'attrs_ok', True) and all(ok for _, ok in read_attributes(me))
        self.seen.append((norm(me.name, me.data), len(self.sim.P.log)))


class EqRec:
    """a recording listener with value equality (as a dataclass has): two fresh ones compare equal, they are still two
    listeners and both are attached"""
    __hash__ = None

    def __init__(self):
        self.seen = []

    def __eq__(self, other):
        return isinstance(other, EqRec) and self.seen == other.seen

    def __call__(self, me):
        self.seen.append(me.name)


def derive(r, T):
    """documented meta-event stream of one execute_once call, from what it returned"""
    out = [('step started', (('time', float(T)),))]
    if r.ms is not None:
        if r.ms.event is not None:
            e = r.ms.event
            out.append(('event consumed', (('event', (type(e).__name__, e.name, e.data.get('uid'), e.data.get('delay'))),)))
        for m in r.ms.steps:
            for s in m.exited_states:
                out.append(('state exited', (('state', s),)))
            if m.transition is not None:
                # a transition that names an event is processed with the event the macro step consumed, whichever micro
                # step it is; an eventless one with none
                e = r.ms.event if m.transition.event is not None else None
                out.append(('transition processed', (
                    ('event', None if e is None else (type(e).__name__, e.name, e.data.get('uid'), e.data.get('delay'))),
                    ('source', m.transition.source), ('target', m.transition.target))))
            for s in m.entered_states:
                out.append(('state entered', (('state', s),)))
            for e in m.sent_events:
                if isinstance(e, InternalEvent):
                    out.append(('event sent', (('event', ('InternalEvent', e.name, e.data.get('uid'), e.data.get('delay'))),)))
                else:
                    out.append(norm(e.name, e.data))
    if r.exc is None:
        out.append(('step ended', ()))
    return out


def r_mark(sim, r):
    return len(sim.P.log) - len(r.log)


def positions(sp, r):
    """number of probe-log entries of this step that precede each documented meta-event (same order as derive())"""
    nguards = 0
    for e in r.log:
        if e[0] in ('guard', 'tguard'):
            nguards += 1
        else:
            break
    out = [0]                       # step started: before anything
    n = nguards
    if r.ms is not None:
        if r.ms.event is not None:
            out.append(n)           # event consumed: after selection, before any code
        for m in r.ms.steps:
            # with contract checking on, the conditions are evaluated at the points C08 documents, and the notification of
            # something that happened follows the conditions attached to it
            for sname in m.exited_states:
                n += 1 + len(sp.states[sname].exit_sends) + len(sp.states[sname].post)
                out.append(n)
            if m.transition is not None:
                t = sp.trans[tid(m.transition)]
                n += 1 + len(t.sends) + len(t.pre) + len(t.post) + 2 * len(t.inv)
                out.append(n)
            for sname in m.entered_states:
                n += 1 + len(sp.states[sname].entry_sends) + len(sp.states[sname].pre)
                out.append(n)
            for e in m.sent_events:
                out.append(n)       # sent events are raised once the micro step's code has run
    if r.exc is None:
        out.append(len(r.log))
    return out


def run(ch, tier):
    res = Result()
    cs = ch.s('cfg')
    contracts = cs.flag(1, 3)
    cfg = swarm(cs, Cfg(sends=True, notify=True, delays=True, contracts=contracts), tier)
    cfg.anon = cs.flag(1, 3)     # events without any distinguishing parameter: two of them sent in one step compare equal
    trip_first = cs.flag(1, 2)
    skew = cs.flag(1, 2)        # the monitored clock moves at every read: the property chart must still see the frozen step time
    mkclock = (lambda: SkewClock()) if skew else (lambda: SimClock())
    armed = cs.flag(1, 2)       # the property statecharts keep a delayed event of their own pending during the whole run
    RECORDER, TRIPWIRE = RECORDERS[armed], TRIPWIRES[armed]
    sp = gen_spec(ch.s('chart'), cfg)
    cfp = fp(sp.fingerprint())
    # ---------------- run A
    subclassed = cs.flag(1, 3)
    del Monitored.built[:]
    a = Sim(sp, clock=mkclock(), ignore_contract=not contracts,
            interpreter_klass=functools.partial(Monitored, tag='monitored') if subclassed else Interpreter)
    if subclassed:
        try:
            a.it.bind_property_statechart(IDLE)
        except Exception as e:
            return res.fail('intrusive', 'bind_property_statechart(statechart) on an interpreter of a subclass raised %s: %s' % (
                type(e).__name__, str(e)[:100]), chart=sp.describe())
        if Monitored.built != ['monitored']:
            return res.fail('intrusive', 'binding a property statechart without interpreter_klass built %d more interpreter(s) of the '
                            'monitored interpreter\'s own class (documented default: Interpreter)' % (len(Monitored.built) - 1), chart=sp.describe())
        res.stats['runs_monitoring_an_interpreter_subclass'] += 1
    plain = Plain(a)
    q = Q()
    if cs.flag(1, 3):
        # a one-shot listener attached in front of all others detaches itself while it is being told its k-th meta-event:
        # the listeners behind it still get that meta-event, and every later one
        a.it.attach(OneShot(a.it, cs.int(1, 12)))
        res.stats['runs_with_a_listener_that_detaches_itself_during_dispatch'] += 1
    a.it.attach(plain)
    twins_ = [EqRec(), EqRec()]
    for t_ in twins_:
        a.it.attach(t_)
    if cs.flag(1, 4):
        # deprecated but supported entry point: an already built interpreter is handed over and re-clocked
        res.stats['property_bound_through_deprecated_interpreter_argument'] += 1
        a.it.bind_property_statechart(Interpreter(RECORDER, initial_context={'Q': q}))
    else:
        a.it.bind_property_statechart(RECORDER, interpreter_klass=lambda sc, clock: Interpreter(sc, clock=clock, initial_context={'Q': q}))
    sigs = []
    pos = 0
    for r in standard_ops(a, ch, tier, delays=True, lo=3, hi=14 if tier == 'quick' else 25):
        res.stats['steps'] += 1
        if not r.init:
            legal_or_abandon(sp, r.pre, 'C10')
        if r.exc is not None and not (r.sel is not None and r.sel.err and type(r.exc).__name__ == r.sel.err):
            # nothing in this run may fail: either the same inputs fail without any listener too (not this property), or
            # monitoring changed the run
            c = Sim(sp, clock=mkclock(), ignore_contract=not contracts)
            last = None
            for last in replay_script(c, a.script):
                pass
            if last is not None and last.exc_name() == r.exc_name():
                raise Abandon('other: unexpected %s in the fault-free twin' % r.exc_name())
            return res.fail('intrusive', 'step %d raised %s (%s) with a recording listener and a never-final property statechart attached; the '
                            'same inputs without them end with %s' % (r.k, r.exc_name(), str(r.exc)[:100], last and last.exc_name()),
                            chart=sp.describe(), listener_saw=[x[0] for x in plain.seen[pos:]][:30])
        if not getattr(plain, 'attrs_ok', True):
            return res.fail('meta-event-attributes', 'a documented attribute read through the meta-event differs from its data', chart=sp.describe())
        want = derive(r, r.T)
        got_all = plain.seen[pos:]
        got = [x[0] for x in got_all if x[0][0] != 'delayed event sent']
        ctx = dict(chart=sp.describe(), step=r.k, micro_steps=r.ms and [repr(m) for m in r.ms.steps], listener_saw=got[:30])
        if got != want:
            i = next((i for i, (x, y) in enumerate(zip(got, want)) if x != y), min(len(got), len(want)))
            return res.fail('meta-event-stream', 'meta-event %d of the call: listener received %r, the returned step implies %r' % (
                i, got[i] if i < len(got) else 'nothing', want[i] if i < len(want) else 'nothing'), **ctx)
        # each meta-event is emitted where the thing happens: position inside the code the step executed
        want_pos = positions(sp, r)
        got_pos = [x[1] - r_mark(a, r) for x in got_all if x[0][0] != 'delayed event sent']
        if got_pos != want_pos:
            i = next((i for i, (x, y) in enumerate(zip(got_pos, want_pos)) if x != y), 0)
            code = [e for e in r.log]
            return res.fail('meta-event-timing', 'meta-event %d (%s) was emitted after %d pieces of monitored code of this step had run, it '
                            'documents something that happened after %d: %r' % (i, got[i][0], got_pos[i], want_pos[i], code[:max(got_pos[i], want_pos[i]) + 1]), **ctx)
        issued = [e[1] for e in r.log if e[0] in ('send', 'notify')]
        emitted = []
        for x in got:
            d = dict(x[1])
            if x[0] == 'event sent':
                if d['event'][2] is not None:
                    emitted.append(d['event'][2])
            elif x[0] in ('na', 'nb'):
                emitted.append(d.get('uid'))
        # per micro step the code of one block issues its sends/notifies in program order; blocks follow each other
        if sorted(issued) == sorted(emitted) and issued != emitted:
            return res.fail('meta-event-order', 'the code of this step issued send/notify uids in the order %s, listeners were told in the order %s' % (
                issued, emitted), **ctx)
        qs = q.seen[pos:]
        if [x[0] for x in qs] != [x[0] for x in got_all]:
            return res.fail('property-chart-stream', 'the bound property statechart received %r, the attached listener %r' % (
                [x[0][0] for x in qs][:12], [x[0][0] for x in got_all][:12]), **ctx)
        for x in qs:
            if F(x[1]) != r.T:
                return res.fail('property-clock', 'property statechart saw time=%r while processing %s of a monitored step whose time is %r' % (
                    x[1], x[0][0], float(r.T)), **ctx)
        pos = len(plain.seen)
        sigs.append((sig(r.ms), sorted(r.post), r.exc_name()))
    if not (twins_[0].seen == twins_[1].seen == [x[0][0] for x in plain.seen]):
        return res.fail('listener-left-out', 'three listeners were attached; the first saw %d meta-events, two recorders that compared equal '
                        'when they were attached saw %d and %d' % (len(plain.seen), len(twins_[0].seen), len(twins_[1].seen)), chart=sp.describe())
    script = a.script
    L = list(a.P.log)
    n = len(plain.seen)
    # ---------------- run C: no listener at all (non-intrusive)
    c = Sim(sp, clock=mkclock(), ignore_contract=not contracts)
    for i, r in enumerate(replay_script(c, script)):
        if (sig(r.ms), sorted(r.post), r.exc_name()) != sigs[i]:
            return res.fail('intrusive', 'step %d differs between a monitored and an unmonitored run: %r vs %r' % (
                r.k, sigs[i][0], sig(r.ms)), chart=sp.describe())
    if c.P.log != L:
        return res.fail('intrusive', 'executed code differs between a monitored and an unmonitored run', chart=sp.describe())
    res.stats['meta_events_in_fault_free_twin'] += n
    res.stats['runs_with_skewing_clock' if skew else 'runs_with_still_clock'] += 1
    res.stats['runs_whose_property_charts_keep_a_delayed_event_pending'] += int(armed)
    # ---------------- runs B_k
    fs = ch.s('faults')
    if tier == 'thorough' or n <= 10:
        ks = list(range(1, n + 1))
        res.stats['runs_with_all_positions_enumerated'] += 1
    else:
        ks = sorted(set(1 + fs.choice(n) for _ in range(10)))
    for k in ks:
        b = Sim(sp, clock=mkclock(), ignore_contract=not contracts)
        pb = Plain(b)
        ctxp = {'K': k}
        mk = lambda sc, clock: Interpreter(sc, clock=clock, initial_context=ctxp)   # noqa
        if trip_first:
            b.it.bind_property_statechart(TRIPWIRE, interpreter_klass=mk)
            b.it.attach(pb)
        else:
            b.it.attach(pb)
            b.it.bind_property_statechart(TRIPWIRE, interpreter_klass=mk)
        exc = None
        for r in replay_script(b, script):
            if r.exc is not None and not (r.sel is not None and r.sel.err and type(r.exc).__name__ == r.sel.err):
                exc = r.exc
                break
        target, cut = plain.seen[k - 1]
        ctx = dict(chart=sp.describe(), k=k, meta_event=target, tripwire_bound='before the plain listener' if trip_first else 'after the plain listener',
                   script=[repr(o)[:60] for o in script][:30])
        res.stats['fault_property_final_at_' + target[0].replace(' ', '_')] += 1
        if exc is None:
            return res.fail('not-fail-fast', 'the property statechart turned final at meta-event %d (%s) but no call raised' % (k, target[0]), **ctx)
        if not isinstance(exc, sx.PropertyStatechartError):
            return res.fail('wrong-error', 'expected PropertyStatechartError, got %s: %s' % (type(exc).__name__, str(exc)[:80]), **ctx)
        if b.P.log != L[:cut]:
            return res.fail('code-ran-after-property-failed' if len(b.P.log) > cut else 'prefix-differs',
                            'meta-event %d (%s) was emitted after %d probe events; the run with the tripwire executed %d: extra %r' % (
                                k, target[0], cut, len(b.P.log), b.P.log[cut:cut + 4]), **ctx)
        seen_b = len(pb.seen)
        if seen_b != (k - 1 if trip_first else k):
            return res.fail('emission-count', 'plain listener saw %d meta-events in the run whose tripwire fired at %d' % (seen_b, k), **ctx)
        res.nontrivial.add(fp((cfp, k, target)))
        if res.sample is None:
            res.sample = ctx
    # ---------------- run D: a property statechart that only waits for its own timeout
    if fs.flag(1, 2):
        D = fs.pick([0, 1, 2, 5, 0.5, 0.25])
        times = [F(x[1]) for x in q.seen]
        k = next((i for i, t in enumerate(times) if t >= times[0] + F(D)), None)
        b = Sim(sp, clock=mkclock(), ignore_contract=not contracts)
        pb = Plain(b)
        mk = lambda sc, clock: Interpreter(sc, clock=clock, initial_context={'D': D})   # noqa
        if trip_first:
            b.it.bind_property_statechart(TIMEBOMB, interpreter_klass=mk)
            b.it.attach(pb)
        else:
            b.it.attach(pb)
            b.it.bind_property_statechart(TIMEBOMB, interpreter_klass=mk)
        exc = None
        for r in replay_script(b, script):
            if r.exc is not None and not (r.sel is not None and r.sel.err and type(r.exc).__name__ == r.sel.err):
                exc = r.exc
                break
        ctx = dict(chart=sp.describe(), delay=D, first_meta_event_at=float(times[0]), script=[repr(o)[:60] for o in script][:30])
        res.stats['fault_property_timeout_' + ('never_due' if k is None else 'due')] += 1
        if k is None:
            if exc is not None or b.P.log != L:
                return res.fail('intrusive', 'a property statechart whose timeout (%s after the first step) never fell due changed the run: %s' % (
                    D, type(exc).__name__ if exc is not None else 'executed code differs'), **ctx)
        else:
            target, cut = plain.seen[k]
            ctx['meta_event'] = target
            if exc is None:
                return res.fail('not-fail-fast', 'the timeout of the property statechart fell due at meta-event %d (%s, step time %s) but no call raised'
                                % (k + 1, target[0], float(times[k])), **ctx)
            if not isinstance(exc, sx.PropertyStatechartError):
                return res.fail('wrong-error', 'expected PropertyStatechartError, got %s: %s' % (type(exc).__name__, str(exc)[:80]), **ctx)
            if b.P.log != L[:cut]:
                return res.fail('code-ran-after-property-failed' if len(b.P.log) > cut else 'prefix-differs',
                                'the timeout of the property statechart fell due at meta-event %d (%s), emitted after %d probe events; the run '
                                'executed %d: extra %r' % (k + 1, target[0], cut, len(b.P.log), b.P.log[cut:cut + 4]), **ctx)
            if len(pb.seen) != (k if trip_first else k + 1):
                return res.fail('emission-count', 'plain listener saw %d meta-events in the run whose property statechart timed out at meta-event %d'
                                % (len(pb.seen), k + 1), **ctx)
    res.sim_time = float(a.now())
    return res

"""C16 - structural editing keeps a statechart sound; failed edits change nothing (DESIGN.md section 4, C16)."""
from collections import Counter

from sim.chart import Cfg, swarm, gen_spec, build_api
from sim.engine import Result, fp
from sim.checks import common

from sismic import model
from sismic.exceptions import StatechartError

ID = 'C16'
LEVEL = 'exploration'
BUDGET = {'quick': 20, 'thorough': 240}
BLOCK = 50
STREAM_ORDER = ['ops', 'chart', 'cfg']
RULE = ('a generated well-formed chart (<= 12 states) is edited by a seeded sequence (<= 40) of add_state, remove_state, rename_state, move_state, '
        'add_transition, remove_transition, rotate_transition calls with valid arguments and with the invalid ones the API documents (unknown '
        'names, collisions, second root, non-composite parents, history states under orthogonal states or as root, moving into itself or a '
        'descendant, sources that may not own transitions, unknown targets, rotate without argument); an independent tree model applies every '
        'operation and the full public state (states, kinds, parent_for, children_for, transitions as multiset, every initial / memory, '
        'validate()) is compared after every call; when the call raised, a deep structural snapshot taken before must equal the one after. '
        'non-trivial = a sequence with >= 1 rejected and >= 3 successful structural edits; distinct = distinct (chart, operation sequence)')
COMPONENTS = {'real': ['sismic.model.Statechart (all editing methods, validate)', 'sismic.model.elements'], 'stub': []}
ASSUMPTIONS = ['names are non-empty str; transitions passed to remove/rotate are registered objects',
               'the rejected operation is the fault; there is no clock or schedule in this property beyond the operation sequence',
               'move_state accepts any existing state that is not the moved state or one of its descendants as new parent (also a basic, final or history state): such moves are successful edits and are judged like the others']
LEVEL_TEXT = 'seeded stateful exploration against an independent 80-line tree model, with snapshot equality on every rejected call'
LEVEL_NOTE = 'trusted: the tree model written from the docstrings of the editing methods'
TECHNIQUE = 'seeded stateful operation sequences with rejected-operation faults, reference-model comparison after every call, shrinking, replay'

KINDS = {'basic': model.BasicState, 'compound': model.CompoundState, 'orthogonal': model.OrthogonalState,
         'final': model.FinalState, 'shallow': model.ShallowHistoryState, 'deep': model.DeepHistoryState}
KIND_OF = {v: k for k, v in KINDS.items()}


class Tree:
    """independent model"""

    def __init__(self, sp):
        self.st = {n: {'kind': s.kind, 'parent': s.parent, 'initial': s.initial, 'memory': s.memory} for n, s in sp.states.items()}
        self.tr = [{'src': t.src, 'tgt': t.tgt, 'event': t.event, 'rest': None} for t in sp.trans]

    def children(self, n):
        return set(x for x, d in self.st.items() if d['parent'] == n)

    def desc(self, n):
        out, stack = set(), [n]
        while stack:
            x = stack.pop()
            for c in self.children(x):
                out.add(c)
                stack.append(c)
        return out

    def root(self):
        r = [n for n, d in self.st.items() if d['parent'] is None]
        return r[0] if r else None


def snapshot(sc, objs):
    return (tuple((n, type(sc.state_for(n)).__name__, sc.parent_for(n), tuple(sc.children_for(n)),
                   getattr(sc.state_for(n), 'initial', None), getattr(sc.state_for(n), 'memory', None),
                   getattr(sc.state_for(n), 'on_entry', None)) for n in sc.states),
            tuple((id(t), t.source, t.target, t.event, t.guard, t.action, t.priority) for t in sc.transitions),
            tuple((id(t), t.source, t.target) for t in objs), sc.root)


def compare(sc, m):
    if sorted(m.st) != sc.states:
        return 'states are %r, model %r' % (sc.states, sorted(m.st))
    if sc.root != m.root():
        return 'root is %r, model %r' % (sc.root, m.root())
    for n, d in m.st.items():
        s = sc.state_for(n)
        if KIND_OF[type(s)] != d['kind']:
            return 'state %r is a %s, model %s' % (n, type(s).__name__, d['kind'])
        if s.name != n:
            return 'state registered as %r carries the name %r' % (n, s.name)
        if sc.parent_for(n) != d['parent']:
            return 'parent_for(%r) is %r, model %r' % (n, sc.parent_for(n), d['parent'])
        ch = sc.children_for(n)
        if len(ch) != len(set(ch)) or set(ch) != m.children(n):
            return 'children_for(%r) is %r, model %r' % (n, ch, sorted(m.children(n)))
        if getattr(s, 'initial', None) != d['initial']:
            return 'initial of %r is %r, model %r' % (n, getattr(s, 'initial', None), d['initial'])
        if getattr(s, 'memory', None) != d['memory']:
            return 'memory of %r is %r, model %r' % (n, getattr(s, 'memory', None), d['memory'])
    # generated transitions are told apart by their action text; the ones added by this check by guard and priority
    got = Counter((t.source, t.target, t.event, (t.guard, t.priority) if t.action is None else None) for t in sc.transitions)
    want = Counter((t['src'], t['tgt'], t['event'], t['rest']) for t in m.tr)
    if got != want:
        return 'transitions differ: only real %r, only model %r' % (list((got - want).elements())[:3], list((want - got).elements())[:3])
    for t in sc.transitions:
        if t.source not in m.st or m.st[t.source]['kind'] not in ('basic', 'compound', 'orthogonal'):
            return 'transition %r starts from a state that may not own transitions' % t
        if t.target is not None and t.target not in m.st:
            return 'transition %r refers to a missing state' % t
    for n, d in m.st.items():
        if d['initial'] is not None and d['initial'] not in m.children(n):
            return 'model: initial dangles'      # cannot happen with the generated arguments
        if d['memory'] is not None and (d['memory'] == n or d['memory'] not in m.children(d['parent'])):
            return 'model: memory dangles'
    try:
        sc.validate()
    except StatechartError as e:
        return 'validate() fails: %s' % e
    return None


def run(ch, tier):
    res = Result()
    cfg = swarm(ch.s('cfg'), Cfg(), tier)
    cfg.max_states = min(cfg.max_states, 12)
    if ch.s('cfg').flag(1, 3):
        cfg.history = cfg.force_history = True
        cfg.max_states = max(cfg.max_states, 8)
    sp = gen_spec(ch.s('chart'), cfg)
    # legal references the generator never draws: a history state as the initial state of its parent, or as the memory of
    # a sibling history state (validate() accepts both); moving / removing / renaming the referenced state has to follow
    refs = ch.s('chart')
    for n in sorted(sp.states):
        s_ = sp.states[n]
        hist = sorted(c for c in s_.children if sp.states[c].kind in ('shallow', 'deep'))
        if s_.kind == 'compound' and hist and refs.flag(1, 3):
            s_.initial = refs.pick(hist)
            res.stats['initial_is_a_history_state'] += 1
        if len(hist) >= 2 and refs.flag(1, 3):
            a_, b_ = hist[0], hist[1]
            sp.states[a_].memory = b_
            res.stats['memory_is_a_history_state'] += 1
    sc = build_api(sp)
    m = Tree(sp)
    objs = list(sc.transitions)        # registered transition objects, model index aligned through identity lookups
    ops = ch.s('ops')
    n = ops.int(3, 40 if tier == 'quick' else 60)
    fresh = [0]
    graveyard = []
    hist = []
    ok_edits = rejected = 0
    for _ in range(n):
        names = sorted(m.st)
        op = ops.weighted([('add_state', 4), ('remove_state', 2), ('rename_state', 3), ('move_state', 4), ('add_transition', 4),
                           ('remove_transition', 2), ('rotate_transition', 5)])

        def pick_name(p_bad=(1, 5), empty_ok=True):
            if not names or ops.flag(*p_bad):
                # unknown names; the empty string is one of them wherever the API does not give it a meaning of its own
                return ops.pick(['NOSUCH', 'NOSUCH', '']) if empty_ok else 'NOSUCH'
            return ops.pick(names)
        expect_err = None
        call = None
        apply_model = None
        if op == 'add_state':
            kind = ops.pick(['basic', 'compound', 'orthogonal', 'final', 'shallow', 'deep'])
            if names and ops.flag(1, 6):
                nm = ops.pick(names)             # collision
            elif [g for g in graveyard if g not in m.st] and ops.flag(1, 3):
                nm = ops.pick([g for g in graveyard if g not in m.st])    # a name that was renamed away or removed earlier
                res.stats['freed_name_reused'] += 1
            else:
                fresh[0] += 1
                nm = 'n%d' % fresh[0]
            parent = None if (not names or ops.flag(1, 8)) else pick_name(empty_ok=False)
            obj = KINDS[kind](nm)
            if nm in m.st:
                expect_err = 'duplicate name'
            elif parent is None:
                if m.root() is not None:
                    expect_err = 'second root'
                elif kind in ('shallow', 'deep'):
                    expect_err = 'history root'
            elif parent not in m.st:
                expect_err = 'unknown parent'
            elif m.st[parent]['kind'] not in ('compound', 'orthogonal'):
                expect_err = 'parent is not composite'
            elif kind in ('shallow', 'deep') and m.st[parent]['kind'] != 'compound':
                expect_err = 'history state outside a compound state'
            call = lambda: sc.add_state(obj, parent)     # noqa
            desc = ('add_state', kind, nm, parent)

            def apply_model():
                m.st[nm] = {'kind': kind, 'parent': parent, 'initial': None, 'memory': None}
        elif op == 'remove_state':
            nm = pick_name()
            if nm not in m.st:
                expect_err = 'unknown state'
            call = lambda: sc.remove_state(nm)   # noqa
            desc = ('remove_state', nm)

            def apply_model():
                gone = {nm} | m.desc(nm)
                for g in gone:
                    del m.st[g]
                m.tr = [t for t in m.tr if t['src'] not in gone and t['tgt'] not in gone]
                for d in m.st.values():
                    if d['initial'] in gone:
                        d['initial'] = None
                    if d['memory'] in gone:
                        d['memory'] = None
        elif op == 'rename_state':
            old = pick_name()
            if names and ops.flag(1, 5):
                new = ops.pick(names)
            elif [g for g in graveyard if g not in m.st] and ops.flag(1, 3):
                new = ops.pick([g for g in graveyard if g not in m.st])
                res.stats['freed_name_reused'] += 1
            else:
                fresh[0] += 1
                new = 'r%d' % fresh[0]
            if old != new:
                if new in m.st:
                    expect_err = 'new name exists'
                elif old not in m.st:
                    expect_err = 'unknown state'
            elif old not in m.st:
                expect_err = None   # documented no-op when both names are equal
            call = lambda: sc.rename_state(old, new)     # noqa
            desc = ('rename_state', old, new)

            def apply_model():
                if old == new:
                    return
                m.st[new] = m.st.pop(old)
                for d in m.st.values():
                    for f in ('parent', 'initial', 'memory'):
                        if d[f] == old:
                            d[f] = new
                for t in m.tr:
                    if t['src'] == old:
                        t['src'] = new
                    if t['tgt'] == old:
                        t['tgt'] = new
        elif op == 'move_state':
            nm = pick_name()
            comp = [x for x in names if m.st[x]['kind'] in ('compound', 'orthogonal')]
            if comp and not ops.flag(1, 4):
                newp = ops.pick(comp)
            else:
                newp = pick_name()
            if nm not in m.st or newp not in m.st:
                expect_err = 'unknown state'
            elif newp == nm or newp in m.desc(nm):
                expect_err = 'into itself or a descendant'
            elif m.st[newp]['kind'] not in ('compound', 'orthogonal') or \
                    (m.st[nm]['kind'] in ('shallow', 'deep') and m.st[newp]['kind'] != 'compound'):
                # move_state documents no restriction on the kind of the new parent and accepts these moves (validate() keeps
                # passing): they are successful edits like any other, and the tree has to stay a tree afterwards
                res.stats['moves_under_a_parent_add_state_would_refuse'] += 1
            call = lambda: sc.move_state(nm, newp)   # noqa
            desc = ('move_state', nm, newp)

            def apply_model():
                m.st[nm]['parent'] = newp
                if m.st[nm]['kind'] in ('shallow', 'deep'):
                    m.st[nm]['memory'] = None
                for d in m.st.values():
                    if d['initial'] == nm:
                        d['initial'] = None
                    if d['memory'] == nm:
                        d['memory'] = None
        elif op == 'add_transition':
            src = pick_name()
            tgt = None if ops.flag(1, 5) else pick_name()
            evn = ops.pick(['ea', 'eb', None])
            g_, p_ = ('True' if (tgt is None and evn is None) else None), 0
            mine = [x for x in objs if x.action is None and any(x is u for u in sc.transitions)]
            if mine and ops.flag(1, 3):
                # a twin of a registered transition: same ends and event, only the priority or only the guard differs
                o_ = ops.pick(mine)
                src, tgt, evn, g_, p_ = o_.source, o_.target, o_.event, o_.guard, o_.priority
                kind_ = ops.weighted([('priority', 2), ('guard', 2), ('same', 1)])
                if kind_ == 'priority':
                    p_ = p_ + ops.pick([1, -1, 5])
                elif kind_ == 'guard':
                    g_ = ops.pick(['True', 'not False', '1 == 1', '2 > 1'])
                else:
                    res.stats['exact_duplicate_of_a_registered_transition_added'] += 1     # nothing forbids it; both are registered
                res.stats['twin_transition_added'] += 1
            t = model.Transition(src, tgt, event=evn, guard=g_, priority=p_)
            if src not in m.st:
                expect_err = 'unknown source'
            elif m.st[src]['kind'] not in ('basic', 'compound', 'orthogonal'):
                expect_err = 'source may not own transitions'
            elif tgt is not None and tgt not in m.st:
                expect_err = 'unknown target'
            call = lambda: sc.add_transition(t)      # noqa
            desc = ('add_transition', src, tgt, evn)

            def apply_model():
                m.tr.append({'src': src, 'tgt': tgt, 'event': evn, 'rest': (t.guard, t.priority)})
                objs.append(t)
        elif op == 'remove_transition':
            if not objs:
                continue
            t = ops.pick(objs)
            call = lambda: sc.remove_transition(t)   # noqa
            desc = ('remove_transition', t.source, t.target, t.event)
            key = {'src': t.source, 'tgt': t.target, 'event': t.event, 'rest': (t.guard, t.priority) if t.action is None else None}
            if not any(t is u for u in sc.transitions):
                expect_err = 'not registered'        # removed together with a state
                if any(t == u for u in sc.transitions):
                    continue    # an equal transition is still registered: remove() by equality is documented behaviour, not judged

            def apply_model():
                m.tr.remove(key)
                # equal transitions are interchangeable for remove(): drop one registered object with these fields
                for o in objs:
                    if o is t:
                        objs.remove(o)
                        break
        else:
            live = [t for t in objs if any(t is u for u in sc.transitions)]
            if not live:
                continue
            t = ops.pick(live)
            mode = ops.weighted([('source', 2), ('target', 2), ('both', 3), ('none', 1), ('internal', 1)])
            ns = pick_name(empty_ok=False) if mode in ('source', 'both') else ''
            nt = (pick_name(empty_ok=False) if mode in ('target', 'both') else '') if mode != 'internal' else None
            if mode == 'none':
                expect_err = 'no argument'
            elif ns != '' and ns not in m.st:
                expect_err = 'unknown new source'
            elif ns != '' and m.st[ns]['kind'] not in ('basic', 'compound', 'orthogonal'):
                expect_err = 'new source may not own transitions'
            elif nt not in ('', None) and nt not in m.st:
                expect_err = 'unknown new target'
            call = lambda: sc.rotate_transition(t, new_source=ns, new_target=nt)     # noqa
            desc = ('rotate_transition', (t.source, t.target, t.event), ns, nt)
            key = {'src': t.source, 'tgt': t.target, 'event': t.event, 'rest': (t.guard, t.priority) if t.action is None else None}

            def apply_model():
                i = m.tr.index(key)
                if ns != '':
                    m.tr[i]['src'] = ns
                if nt != '':
                    m.tr[i]['tgt'] = nt
        before = snapshot(sc, objs)
        raised = None
        try:
            call()
        except (StatechartError, ValueError) as e:
            raised = e
        except Exception as e:
            return res.fail('wrong-exception', '%r raised %s: %s' % (desc, type(e).__name__, str(e)[:80]), chart=sp.describe(), history=hist[-15:])
        hist.append(desc + (('-> ' + type(raised).__name__) if raised else '-> ok',))
        ctx = dict(chart=sp.describe(), history=hist[-15:])
        if raised is not None:
            rejected += 1
            res.stats['rejected_' + op] += 1
            if expect_err is None:
                return res.fail('valid-edit-rejected', '%r raised %s: %s' % (desc, type(raised).__name__, str(raised)[:80]), **ctx)
            after = snapshot(sc, objs)
            if after != before:
                diff = [(a, b) for a, b in zip(before, after) if a != b]
                d0 = diff[0]
                el = [(x[1:] if isinstance(x[0], int) else x, y[1:] if isinstance(y[0], int) else y) for x, y in zip(d0[0], d0[1]) if x != y][:2] if isinstance(d0[0], tuple) else d0
                return res.fail('failed-edit-changed-statechart', '%r raised %s (%s) but changed the statechart: %r' % (
                    desc, type(raised).__name__, expect_err, el), **ctx)
        else:
            if expect_err is not None:
                return res.fail('invalid-edit-accepted', '%r succeeded although %s' % (desc, expect_err), **ctx)
            before_names = set(m.st)
            apply_model()
            graveyard.extend(sorted(before_names - set(m.st)))
            ok_edits += 1
            res.stats['ok_' + op] += 1
        why = compare(sc, m)
        if why:
            return res.fail('model-mismatch', 'after %r: %s' % (desc, why), **ctx)
    if rejected >= 1 and ok_edits >= 3:
        res.nontrivial.add(fp((sp.fingerprint(), hist)))
        res.sample = {'chart': sp.describe()[:10], 'operations': [repr(h) for h in hist[:15]]}
    return res

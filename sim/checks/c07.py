"""C07 - execution is deterministic and independent of declaration order (DESIGN.md section 4, C07)."""
import hashlib
import json
import os
import subprocess
import sys

from sim.chart import Cfg, swarm, gen_spec, build_api, build_yaml
from sim.engine import Result, Abandon, fp, seed_for, Choices, VERIF
from sim.semrun import Sim, standard_ops, replay_script
from sim.checks import common
from sim.checks.c09 import sig

ID = 'C07'
LEVEL = 'exploration'
BUDGET = {'quick': 18, 'thorough': 200}
BLOCK = 25
STREAM_ORDER = ['ops', 'guards', 'order', 'chart', 'cfg']
RULE = ('one abstract well-formed chart is materialised 5 ways - add_state/add_transition in creation order, the same calls in a drawn '
        'permutation, two YAML documents with independently permuted sibling states and transition lists, and through the editing API '
        '(move_state / rename_state detour); in half of the runs every materialisation also gets two guard-twin transitions added in a drawn '
        'order and one removed again - and the same seeded script '
        'drives all of them in lock-step: macro steps (consumed event, transitions, exit/entry order per micro step, sent events), executed '
        'code, context, the multiset of evaluated guards with the event each one saw, the calls received by three listeners attached in the same order to each interpreter, or the exception class at each step must be identical. After the batch, the first runs are re-executed in fresh '
        'interpreter processes under PYTHONHASHSEED in {0,1,2,3,4242} and the per-run digests of the complete event logs are compared. '
        'non-trivial = a run whose script produced >= 1 macro step with >= 2 exited or entered states while the declaration orders differ; '
        'distinct = distinct (chart, script, orders)')
COMPONENTS = {'real': common.REAL + ['sismic.io.import_from_yaml', 'Statechart.add_state / add_transition'],
              'stub': common.STUB + ['PYTHONHASHSEED of fresh interpreter processes']}
ASSUMPTIONS = common.ASSUME
LEVEL_TEXT = 'differential exploration over declaration orders x histories, plus cross-process digests under several string-hash seeds'
LEVEL_NOTE = 'trusted: the signature function; ruamel.yaml for writing the permuted documents'
TECHNIQUE = 'deterministic simulation: lock-step differential runs over permuted declarations; fresh-process replays under varied PYTHONHASHSEED'


def code(log):
    """executed code without the guard probes: the order in which guards are *evaluated* is not part
    of the property (guards are side-effect free), only what fires and in which order"""
    return [e for e in log if e[0] not in ('guard', 'tguard')]


def guards(log):
    """what the evaluated guards saw, as a multiset: which guards are evaluated in a step, and with which event, does not depend
    on the order of declaration (within a source state every guard of a priority level is evaluated)"""
    return sorted((e for e in log if e[0] in ('guard', 'tguard')), key=repr)


def materialisations(sp, order):
    from sim.chart import build_via_edits, legal_transition
    from sismic.model import Transition
    mats = [('api creation order', build_api(sp)), ('api permuted', build_api(sp, order)),
            ('yaml permuted 1', build_yaml(sp, order)), ('yaml permuted 2', build_yaml(sp, order)),
            ('api through move_state / rename_state', build_via_edits(sp, order)[0])]
    # the same small edit applied to every materialisation, with its two add_transition calls in a drawn order: two
    # transitions that differ only by their guard are added and the one whose guard never holds is removed again
    srcs = [n for n in sorted(sp.states) if sp.kind(n) in ('basic', 'compound', 'orthogonal')]
    evs = sorted({t.event for t in sp.trans if t.event})
    if srcs and evs and order.flag(1, 2):
        src = order.pick(srcs)
        tg = [n for n in sorted(sp.states) if legal_transition(sp, src, n)]
        if tg:
            tgt, evn = order.pick(tg), order.pick(evs)
            for _, sc in mats:
                keep = Transition(src, tgt, event=evn, guard='v >= 0', action='P.act(9002, event)', priority=7)
                drop = Transition(src, tgt, event=evn, guard='v < 0', action='P.act(9002, event)', priority=7)
                for t in (order.shuffle([keep, drop])):
                    sc.add_transition(t)
                sc.remove_transition(drop)
    return mats


def listen(sim):
    """three attached listeners writing into one list: the order in which they are told is part of the run"""
    heard = []
    for i in range(3):
        sim.it.attach(lambda me, i=i: heard.append((i, me.name)))
    return heard


def run(ch, tier, digest=None):
    res = Result()
    cfg = swarm(ch.s('cfg'), Cfg(sends=True, notify=True, delays=True, bump=True, pair_bias=2), tier)
    if ch.s('cfg').flag(1, 3):      # history gadgets: restoring a remembered sub-configuration iterates over stored collections
        cfg.history = cfg.force_history = True
        cfg.max_states = max(cfg.max_states, 8)
    sp = gen_spec(ch.s('chart'), cfg)
    mats = materialisations(sp, ch.s('order'))
    a = Sim(sp, statechart=mats[0][1])
    heard = listen(a)
    outs = []
    rich = False
    for r in standard_ops(a, ch, tier, delays=True, hi=25 if tier == 'quick' else 60):
        res.stats['steps'] += 1
        outs.append((sig(r.ms), r.exc_name(), sorted(r.post), r.ctx_after, code(r.log), list(heard), guards(r.log)))
        del heard[:]
        if r.ms is not None and (len(r.ms.exited_states) >= 2 or len(r.ms.entered_states) >= 2):
            rich = True
    if digest is not None:
        digest.update(repr(outs).encode())
    script = a.script
    for label, sc in mats[1:]:
        b = Sim(sp, statechart=sc)
        heard_b = listen(b)
        for i, r in enumerate(replay_script(b, script)):
            got = (sig(r.ms), r.exc_name(), sorted(r.post), r.ctx_after, code(r.log), list(heard_b), guards(r.log))
            del heard_b[:]
            if got != outs[i]:
                fields = ['macro step', 'exception', 'configuration', 'context v', 'executed code', 'calls of the three attached listeners',
                          'multiset of evaluated guards and the event each saw']
                f, x, y = [(f, x, y) for f, x, y in zip(fields, got, outs[i]) if x != y][0]
                return res.fail('listener-order-not-reproducible' if f.startswith('calls of') else 'declaration-order-matters', 'step %d: %s of the "%s" materialisation is %r, of "api creation order" %r' % (
                    i, f, label, x, y), chart=sp.describe(), script=[repr(o)[:60] for o in script][:30],
                    children_order={n: list(sc.children_for(n)) for n in sc.states if sc.children_for(n)},
                    transitions_order=[t.action.split('\n')[0] for t in sc.transitions])
        if digest is not None:
            digest.update(repr(code(b.P.log)).encode())
    if rich:
        res.nontrivial.add(fp((sp.fingerprint(), [repr(o) for o in script], ch.s('order').used)))
        res.sample = {'chart': sp.describe()[:14], 'script': [repr(o)[:60] for o in script][:12],
                      'yaml_children_order': {n: list(mats[2][1].children_for(n)) for n in mats[2][1].states if mats[2][1].children_for(n)}}
    res.sim_time = float(a.now())
    return res


# ----------------------------------------------------------------------------- PYTHONHASHSEED stage

def digests(tier, batch_seed, n):
    from sim import engine
    me = sys.modules[__name__]
    out = []
    for i in range(n):
        h = hashlib.sha256()
        ch = Choices(seed=seed_for(ID, batch_seed, i))
        try:
            res = run(ch, tier, digest=h)
            h.update(repr(res.violation and res.violation['cls']).encode())
        except Abandon as e:
            h.update(('abandon' + str(e)).encode())
        out.append(h.hexdigest()[:12])
    return out


def child_main(argv):
    tier, batch_seed, n = argv[0], int(argv[1]), int(argv[2])
    print('DIGESTS ' + ' '.join(digests(tier, batch_seed, n)))
    return 0


def spawn(hs, tier, batch_seed, n):
    env = dict(os.environ, PYTHONHASHSEED=str(hs))
    p = subprocess.run([sys.executable, '-c',
                        'import sys; sys.path.insert(0, %r); from sim.checks import c07; sys.exit(c07.child_main(sys.argv[1:]))' % VERIF,
                        tier, str(batch_seed), str(n)], env=env, capture_output=True, text=True, timeout=1500, cwd=VERIF)
    line = [l for l in p.stdout.splitlines() if l.startswith('DIGESTS')]
    if not line:
        raise RuntimeError('hash-seed child failed: %s %s' % (p.stdout[-500:], p.stderr[-1500:]))
    return line[0].split()[1:]


def post_batch(tier, batch_seed, agg):
    """engine hook: returns (stats dict, violation-or-None)"""
    from concurrent.futures import ThreadPoolExecutor
    n = 400 if tier == 'quick' else 3000
    seeds = [0, 1, 2, 3, 4242]
    with ThreadPoolExecutor(len(seeds)) as ex:
        rows = list(ex.map(lambda hs: spawn(hs, tier, batch_seed, n), seeds))
    stats = {'hashseed_processes': len(seeds), 'hashseed_runs_compared': n}
    for hs, row in zip(seeds[1:], rows[1:]):
        diff = [i for i, (x, y) in enumerate(zip(rows[0], row)) if x != y]
        if diff:
            i = diff[0]
            return stats, {'run': i, 'seed': seed_for(ID, batch_seed, i), 'record': {},
                           'violation': {'cls': 'hash-seed-dependent', 'msg': 'run %d gives digest %s under PYTHONHASHSEED=0 and %s under PYTHONHASHSEED=%d' % (
                               i, rows[0][i], row[i], hs), 'explained': {'runs_that_differ': diff[:20]}},
                           'custom': {'mode': 'hashseed', 'tier': tier, 'batch_seed': batch_seed, 'run': i, 'hashseeds': [0, hs]}}
    return stats, None


def replay_custom(doc):
    c = doc['custom']
    a = spawn(c['hashseeds'][0], c['tier'], c['batch_seed'], c['run'] + 1)
    b = spawn(c['hashseeds'][1], c['tier'], c['batch_seed'], c['run'] + 1)
    if a[c['run']] != b[c['run']]:
        print('replayed: run %d digests %s vs %s under PYTHONHASHSEED %s' % (c['run'], a[c['run']], b[c['run']], c['hashseeds']))
        return True
    return False

"""C02 - the active configuration is always legal and stable (DESIGN.md section 4, C02)."""
from sim import ref
from sim.chart import Cfg, swarm, gen_spec, HIST
from sim.engine import Result, Abandon, fp
from sim.semrun import Sim, standard_ops, EXPECTED_EXC, materialise
from sim.checks import common

ID = 'C02'
LEVEL = 'exploration'
BUDGET = {'quick': 20, 'thorough': 240}
STREAM_ORDER = ['ops', 'guards', 'mat', 'chart', 'cfg']
RULE = (common.GEN + 'after every execute_once that returns normally the configuration is checked against the model-free legality '
        'definition; non-trivial = a step that entered or exited an orthogonal or history state; distinct = distinct '
        '(chart, pre-configuration, fired transitions)')
COMPONENTS = {'real': common.REAL, 'stub': common.STUB}
ASSUMPTIONS = common.ASSUME
LEVEL_TEXT = ('seeded exploration of charts x histories x guard outcomes with an invariant evaluated after every step; the invariant '
              'is computed from the chart alone, so no model error can hide or fake a violation')
LEVEL_NOTE = 'trusted: the 30-line legality predicate (sim.ref.legal); steps for which the reference predicts NonDeterminism/Conflict are left to C04'
TECHNIQUE = 'deterministic simulation: seeded chart+history+guard-outcome search, invariant after every step, shrinking, replay'


def run(ch, tier):
    res = Result()
    cfg = swarm(ch.s('cfg'), Cfg(sends=True, delays=True), tier)
    cfg.sends = ch.s('cfg').flag(1, 2)
    sp = gen_spec(ch.s('chart'), cfg)
    sim = Sim(sp, statechart=materialise(sp, ch, res))
    was_final = False
    cfp = fp(sp.fingerprint())
    for r in standard_ops(sim, ch, tier, delays=True):
        res.stats['steps'] += 1
        missed_error = False
        if r.sel is not None and r.sel.err:
            if r.exc is not None and type(r.exc).__name__ == r.sel.err:
                res.stats['error_steps_skipped'] += 1
                continue
            if r.exc is not None:
                raise Abandon('C04: predicted %s, got %s' % (r.sel.err, r.exc_name()))
            # the error C04 asks for was not raised, but the call returned normally: the configuration it
            # left behind is C02's business whatever the reason
            missed_error = True
        if r.exc is not None:
            raise Abandon('C04/other: unexpected %s' % r.exc_name())
        why = ref.legal(sp, r.post)
        if why:
            return res.fail('illegal-configuration', why, chart=sp.describe(), pre=sorted(r.pre),
                            fired=['t%d' % i for i in r.fired_ids()], post=sp.canon(r.post), step=r.k)
        if missed_error:
            raise Abandon('C04: predicted %s, got None (configuration still legal)' % r.sel.err)
        if was_final and (r.post or not sim.it.final):
            return res.fail('final-not-sticky', 'configuration %s after the statechart was final' % sorted(r.post),
                            chart=sp.describe(), step=r.k)
        if sim.it.final:
            was_final = True
            res.stats['final_reached'] += 1
        if not r.post and not sim.it.final:
            return res.fail('empty-not-final', 'empty configuration but final is False', chart=sp.describe(), step=r.k)
        if r.ms is not None:
            touched = set(r.ms.entered_states) | set(r.ms.exited_states)
            kinds = {sp.kind(n) for n in touched if n in sp.states}
            if 'orthogonal' in kinds or kinds & set(HIST):
                res.nontrivial.add(fp((cfp, sorted(r.pre), r.fired_ids())))
                if 'orthogonal' in kinds:
                    res.stats['orthogonal_entered_or_exited'] += 1
                if kinds & set(HIST):
                    res.stats['history_entered'] += 1
                if res.sample is None:
                    res.sample = {'chart': sp.describe(), 'pre': sorted(r.pre), 'fired': r.fired_ids(), 'post': sp.canon(r.post)}
            for t in r.ms.transitions:
                if t.target is not None and any(sp.kind(a) == 'orthogonal' for a in sp.anc(t.target)) \
                        and not any(a in r.pre for a in sp.anc(t.target) if sp.kind(a) == 'orthogonal'):
                    res.stats['entered_nested_region_from_outside'] += 1
    res.sim_time = float(sim.now())
    return res

"""C03 - steps run to completion in documented order and the trace tells the truth (DESIGN.md section 4, C03)."""
from collections import Counter

from sim import ref
from sim.chart import Cfg, swarm, gen_spec, HIST, tid
from sim.engine import Result, Abandon, fp
from sim.probes import ev
from sim.semrun import Sim, standard_ops, legal_or_abandon, groups, event_uid, materialise
from sim.checks import common

from sismic.model import InternalEvent, MetaEvent
from sim.checks.c09 import sig

ID = 'C03'
LEVEL = 'exploration'
BUDGET = {'quick': 20, 'thorough': 240}
STREAM_ORDER = ['ops', 'guards', 'mat', 'chart', 'cfg']
RULE = (common.GEN + 'all entry/exit/action code is probed and sends events; per returned macro step (i) the probe log is compared item by '
        'item with the log reconstructed from the micro steps, (ii) transition order and the exited/entered multisets of every transition '
        'with the reference model (every micro step of a transition that names an event carries the event the macro step consumed; MacroStep.sent_events is the concatenation of its micro steps lists, object by object; a third of the charts also send parameterless, hence equal, events), (iii) the stated order constraints (descendants exited first, parents entered first, orthogonal '
        'siblings in name order); non-trivial = a macro step with >= 2 transitions or >= 3 exited+entered states; distinct = distinct '
        '(chart, pre-configuration, fired transitions)')
COMPONENTS = {'real': common.REAL, 'stub': common.STUB}
ASSUMPTIONS = common.ASSUME + ['whether a history pseudo-state itself appears as entered-then-exited is not constrained']
LEVEL_TEXT = ('seeded exploration; the probe log is ground truth for "what code ran in which order", the reference model for "what should '
              'have been exited/entered"; only orders the property fixes are asserted')
LEVEL_NOTE = 'trusted: sim.ref.apply/stabilise (60 lines) and the probe log'
TECHNIQUE = 'deterministic simulation: seeded chart+history+guard-outcome search, probe-log vs trace vs reference model, shrinking, replay'


def expected_log(sp, ms):
    """probe log implied by the returned micro steps; sends as ('sends', [(kind,name,delay)...]) markers"""
    out = []
    for m in ms.steps:
        frag = []
        for s in m.exited_states:
            frag.append((('exit', s), sp.states[s].exit_sends))
        if m.transition is not None:
            t = sp.trans[tid(m.transition)]
            frag.append((('act', t.i, ev(m.event)), t.sends))
        for s in m.entered_states:
            frag.append((('entry', s), sp.states[s].entry_sends))
        out.append(frag)
    return out


def run(ch, tier):
    res = Result()
    cfg = swarm(ch.s('cfg'), Cfg(sends=True, notify=True, delays=True, pair_bias=2), tier)
    cfg.anon = ch.s('cfg').flag(1, 3)        # events without any parameter: two of them sent in one step compare equal
    if ch.s('cfg').flag(1, 3):
        cfg.history = cfg.force_history = True
        cfg.max_states = max(cfg.max_states, 8)
    sp = gen_spec(ch.s('chart'), cfg)
    returned = []       # every MacroStep handed out, with its rendering at that moment: a trace must not change afterwards
    sim = Sim(sp, statechart=materialise(sp, ch, res))
    cfp = fp(sp.fingerprint())
    for r in standard_ops(sim, ch, tier, delays=True):
        res.stats['steps'] += 1
        if not r.init:
            legal_or_abandon(sp, r.pre, 'C03')
            if r.sel.err:
                if r.exc is None or type(r.exc).__name__ != r.sel.err:
                    raise Abandon('C04: predicted %s, got %s' % (r.sel.err, r.exc_name()))
                continue
        if r.exc is not None:
            if r.exc_name() in ('NonDeterminismError', 'ConflictingTransitionsError'):
                raise Abandon('C04: spurious %s' % r.exc_name())
            # probe code cannot raise and contracts are off: the interpreter itself failed half-way
            return res.fail('step-did-not-complete', 'execute_once raised %s: %s' % (r.exc_name(), str(r.exc)[:100]),
                            chart=sp.describe(), pre=sp.canon(r.pre), step=r.k,
                            log=[e for e in r.log if e[0] not in ('guard', 'tguard')][:20])
        if r.ms is None:
            side = [e for e in r.log if e[0] not in ('guard', 'tguard')]
            if side or r.post != r.pre:
                return res.fail('untold', 'execute_once returned None but code ran / configuration changed: %s' % side[:4],
                                chart=sp.describe(), step=r.k)
            continue
        returned.append((r.k, r.ms, sig(r.ms)))
        ctx = dict(chart=sp.describe(), pre=sp.canon(r.pre), step=r.k,
                   micro_steps=[repr(m) for m in r.ms.steps], log=[e for e in r.log if e[0] not in ('guard', 'tguard')][:40])
        v = check_trace(sp, r, res) or check_content(sp, r, res) or check_order(sp, r, res)
        if v:
            return res.fail(v[0], v[1], **ctx)
        n_tr = len(r.ms.transitions)
        if n_tr >= 2 or len(r.ms.exited_states) + len(r.ms.entered_states) >= 3:
            res.nontrivial.add(fp((cfp, sorted(r.pre), r.fired_ids())))
            if n_tr >= 2:
                res.stats['steps_with_2plus_transitions'] += 1
            if res.sample is None and n_tr >= 1:
                res.sample = dict(ctx)
    for k, ms, was in returned:
        if sig(ms) != was:
            return res.fail('returned-trace-changed-later', 'the MacroStep returned by step %d read %r when it was returned and reads %r at the end '
                            'of the run: a later step rewrote it' % (k, was[1], sig(ms)[1]), chart=sp.describe())
    res.sim_time = float(sim.now())
    return res


def check_trace(sp, r, res):
    """(i) the trace tells the truth"""
    log = [e for e in r.log if e[0] not in ('guard', 'tguard')]
    pos = 0
    conf = set(r.pre)
    for m, frag in zip(r.ms.steps, expected_log(sp, r.ms)):
        if m.transition is not None:
            # every transition that names an event is processed with the event the macro step consumed (that is what its
            # action is shown, see expected_log), an eventless one with none
            named = sp.trans[tid(m.transition)].event is not None
            if (m.event is not r.ms.event) if named else (m.event is not None):
                return ('trace-lies', 'micro step %r of a macro step that consumed %r carries event %r' % (m, r.ms.event, m.event))
        uids = []
        for item, sends in frag:
            if pos >= len(log) or log[pos] != item:
                return ('trace-lies', 'micro steps imply %r at position %d of the executed code, really executed: %r' % (
                    item, pos, log[pos] if pos < len(log) else 'nothing'))
            pos += 1
            for kind, name, delay in sends:
                got = log[pos] if pos < len(log) else None
                want_prefix = ('send', name, delay) if kind in ('send', 'sendw') else ('anon', name, delay) if kind == 'anon' else ('notify', name)
                if got is None or (got[0],) + tuple(got[2:]) != want_prefix:
                    return ('trace-lies', 'expected the %s of %r after %r, executed code has %r' % (kind, name, item, got))
                uids.append(('notify' if kind == 'notify' else 'send', got[1], name, delay))
                pos += 1
        # sent events listed by the micro step = events sent by its code, in order
        listed = []
        for e in m.sent_events:
            k = 'send' if isinstance(e, InternalEvent) else ('notify' if isinstance(e, MetaEvent) else type(e).__name__)
            listed.append((k, event_uid(e), e.name, e.data.get('delay')))
        if listed != uids:
            return ('sent-events-lie', 'micro step %r lists sent events %s, its code sent %s' % (m, listed, uids))
        if uids:
            res.stats['micro_steps_with_sends'] += 1
        for s in m.exited_states:
            if s not in conf:
                return ('trace-lies', 'micro step %r exits %s which is not active' % (m, s))
            conf.discard(s)
        for s in m.entered_states:
            if s in conf:
                return ('trace-lies', 'micro step %r enters %s which is already active' % (m, s))
            conf.add(s)
    if pos != len(log):
        return ('untold', 'code ran that no micro step accounts for: %r' % (log[pos:pos + 4],))
    # the macro step lists the sent events of its micro steps, all of them (two equal events are two events), in order
    flat = [e for m in r.ms.steps for e in m.sent_events]
    whole = list(r.ms.sent_events)
    if len(whole) != len(flat) or any(a is not b for a, b in zip(whole, flat)):
        return ('sent-events-lie', 'MacroStep.sent_events lists %d events %s, its micro steps list %d: %s' % (
            len(whole), [e.name for e in whole], len(flat), [e.name for e in flat]))
    if conf != r.post:
        return ('trace-lies', 'applying the exited/entered lists to %s gives %s, the configuration is %s' % (
            sp.canon(r.pre), sp.canon(conf), sorted(r.post)))
    return None


def check_content(sp, r, res):
    """(ii) transition order and per-transition exited / entered sets"""
    if not r.init:
        want = [t.i for t in r.sel.fired]
        got = r.fired_ids()
        if sorted(want) != sorted(got):
            raise Abandon('C01: selection differs')
        if want != got:
            return ('transition-order', 'transitions processed in order %s, documented order (source depth desc, name) is %s' % (
                ['t%d' % i for i in got], ['t%d' % i for i in want]))
    for g in groups(sp, r, r.mem_before):
        real_ex = Counter(g.exited)
        if real_ex != Counter(g.exp_exited):
            return ('exited-set', 't%s exited %s, active states in its scope are %s' % (
                g.t.i if g.t else '-', g.exited, sp.canon(g.exp_exited)))
        real_en = Counter(s for s in g.entered if sp.kind(s) not in HIST)
        if real_en != Counter(g.exp_entered):
            return ('entered-set', 't%s entered %s, the reference enters %s' % (
                g.t.i if g.t else '-', g.entered, g.exp_entered))
        for s in g.stab_exited:
            if sp.kind(s) not in HIST and not (sp.kind(s) == 'final' or s == sp.root):
                return ('exited-set', 'stabilisation exited %s' % s)
        if g.conf_after != g.exp_conf:
            return ('group-configuration', 'after t%s the configuration is %s, reference %s' % (
                g.t.i if g.t else '-', sp.canon(g.conf_after), sp.canon(g.exp_conf)))
    return None


def check_order(sp, r, res):
    """(iii) order constraints the property states"""
    for g in groups(sp, r, r.mem_before):
        for m in g.micros:
            ex = m.exited_states
            for i, a in enumerate(ex):
                for b in ex[i + 1:]:
                    if a in sp.anc(b):
                        return ('exit-order', '%s exited before its descendant %s in %r' % (a, b, m))
                    pa, pb = sp.states[a].parent, sp.states[b].parent
                    if pa is not None and pa == pb and sp.kind(pa) == 'orthogonal' and a > b:
                        res.stats['x'] += 0
                        return ('exit-order', 'orthogonal siblings %s, %s exited out of name order in %r' % (a, b, m))
                    if pa is not None and pa == pb and sp.kind(pa) == 'orthogonal':
                        res.stats['orthogonal_siblings_exit_order_checked'] += 1
        ent = []
        for m in g.micros:
            ent.extend((s, m.transition is None) for s in m.entered_states)
        for i, (a, sa) in enumerate(ent):
            for b, sb in ent[i + 1:]:
                if b in sp.anc(a):
                    return ('entry-order', '%s entered before its ancestor %s' % (a, b))
                pa, pb = sp.states[a].parent, sp.states[b].parent
                if sa and sb and pa is not None and pa == pb and sp.kind(pa) == 'orthogonal':
                    res.stats['orthogonal_siblings_entry_order_checked'] += 1
                    if a > b:
                        return ('entry-order', 'orthogonal siblings %s, %s entered by default out of name order' % (a, b))
    return None

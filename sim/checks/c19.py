"""C19 - BDD verdicts are sound (DESIGN.md section 4, C19)."""
import io
import json
import os
import shutil
import sys
import tempfile
from contextlib import redirect_stdout, redirect_stderr

from sim.chart import Cfg, swarm, gen_spec, build_api
from sim.engine import Result, Abandon, fp
from sim.probes import Probe
from sim.checks import common
from sim.checks.c09 import sig

from sismic import testing
from sismic import exceptions as sx
from sismic.bdd import execute_bdd
from sismic.interpreter import Interpreter
from sismic.model import Event

ID = 'C19'
LEVEL = 'exploration'
RUN_LIMIT_CPU_S = 600
BUDGET = {'quick': 25, 'thorough': 300}
BLOCK = 10
STREAM_ORDER = ['scen', 'chart', 'cfg']
RULE = ('a generated probe chart (half of them also fire events with notify()) and a generated feature file (3-6 scenarios per execute_bdd call): each scenario is a history of predefined '
        'given/when steps - send event (plain, inline parameter, parameter table, both at once), wait, do nothing, repeat "...", reproduce "..." -, a given-step now and then among the when-steps of a block, followed by '
        'assertions known to be true and one assertion under test drawn true or false alike from every predefined then-step in the documented (parameter values include falsy ones: 0, False, None, empty string and list) '
        'spelling. The feature is run in-process through execute_bdd with behave JSON formatter; every scenario is evaluated independently on a '
        'plain Interpreter (queue / advance / execute() per primitive step; the monitored block is the macro steps of the when-steps since the '
        'last then-step) giving the expected passed/failed status per then-step; the interpreter behave used is captured through '
        'interpreter_klass and its final configuration, context and executed code must equal the independent run; sismic.testing predicates are '
        'cross-checked against the micro steps. non-trivial = one scenario with >= 2 given/when steps; distinct = distinct (chart, scenario)')
COMPONENTS = {'real': ['sismic.bdd.execute_bdd, sismic.bdd.steps, sismic.bdd.environment', 'behave 1.3 (runner, parser, JSON formatter)',
                       'sismic.testing', 'sismic.helpers.log_trace', 'sismic.clock.SimulatedClock (stopped, moved by the wait step)'] + common.REAL,
              'stub': common.STUB[1:] + ['file system: feature file and JSON report in a directory owned by the run']}
ASSUMPTIONS = ['behave JSON report is trusted for the per-step status', 'user-supplied step files, property statecharts and the CLI wrapper are not exercised',
               'state names in assertions exist (an unknown name is an error, not a verdict)']
LEVEL_TEXT = 'seeded exploration of (chart, scenario) pairs with an independent evaluation of every assertion, true and false alike'
LEVEL_NOTE = 'trusted: the independent evaluator (plain Interpreter + 60 lines of predicate code) and behave itself'
TECHNIQUE = 'deterministic simulation of scenario histories on a plain interpreter vs the verdicts reported by behave for the same feature file'


def klass_factory(captured):
    def make(statechart, **kw):
        it = Interpreter(statechart, initial_context={'P': Probe()}, **kw)
        captured.append(it)
        return it
    return make


# ----------------------------------------------------------------------------- scenario generation

def gen_action(st, sp, events, scen_names, allow_compound=True, live=None):
    """one given/when step: (text lines, primitive actions)"""
    if live and st.flag(3, 4):
        events = live           # prefer events some active state reacts to
    kind = st.weighted([('send', 5), ('send_inline', 3), ('send_table', 3), ('send_both', 2), ('wait', 2), ('nothing', 1),
                        ('repeat', 2 if allow_compound else 0), ('reproduce', 2 if (allow_compound and scen_names) else 0)])
    if kind == 'send':
        n = st.pick(events)
        return ['I send event %s' % n], [('send', n, {})], kind
    if kind == 'send_inline':
        n = st.pick(events)
        u = st.int(1, 9)
        return ['I send event %s with uid=%d' % (n, u)], [('send', n, {'uid': u})], kind
    if kind == 'send_table':
        n = st.pick(events)
        u = st.int(1, 9)
        rows = [('uid', repr(u))]
        if st.flag(1, 2):
            rows.append(('k', repr(st.pick(['x', 'y z']))))
        lines = ['I send event %s' % n, '  | parameter | value |'] + ['  | %s | %s |' % r for r in rows]
        return lines, [('send', n, {k: eval(v) for k, v in rows})], kind
    if kind == 'send_both':
        # both documented ways at once: one parameter inline, more in a table
        n = st.pick(events)
        u = st.int(1, 9)
        rows = [('k', repr(st.pick(['x', 'y z'])))]
        if st.flag(1, 2):
            rows.append(('m', repr(st.int(0, 3))))
        lines = ['I send event %s with uid=%d' % (n, u), '  | parameter | value |'] + ['  | %s | %s |' % r for r in rows]
        return lines, [('send', n, dict({k: eval(v) for k, v in rows}, uid=u))], kind
    if kind == 'wait':
        s = st.pick([1, 2, 5, 0.5])
        return ['I wait %g second%s' % (s, '' if s == 1 else 's')], [('wait', s)], kind
    if kind == 'nothing':
        return ['I do nothing'], [], kind
    if kind == 'repeat':
        lines, prim, sub = gen_action(st, sp, events, scen_names, allow_compound=False)
        if len(lines) > 1:      # a table cannot be quoted inside the repeat step (an inline parameter stays)
            keep = ('uid',) if sub == 'send_both' else ()
            lines, prim = lines[:1], [(p[0], p[1], {k: v for k, v in p[2].items() if k in keep}) if p[0] == 'send' else p for p in prim]
        k = st.int(2, 3)
        return ['I repeat "%s" %d times' % (lines[0], k)], prim * k, kind
    name = st.pick(sorted(scen_names))
    return ['I reproduce "%s"' % name], [('reproduce', name)], kind


def live_events(sp, plain):
    conf = set(plain.it.configuration)
    return sorted({t.event for t in sp.trans if t.event and t.src in conf})


BUILTIN_META = ('step started', 'step ended', 'event consumed', 'event sent', 'delayed event sent', 'state exited', 'state entered',
                'transition processed')


class Plain:
    """independent evaluation of given/when steps"""

    def __init__(self, sc):
        self.it = Interpreter(sc, initial_context={'P': Probe()})
        self.block = None
        self.mblock = None      # what happened during the monitored block, as announced by meta-events at the time
        self._cur = []
        self.monitoring = False
        self.it.attach(self._listen)

    def _listen(self, me):
        if me.name in ('state entered', 'state exited'):
            self._cur.append((me.name, me.state))
        elif me.name == 'event sent':
            self._cur.append((me.name, me.event.name, dict(me.event.data)))
        elif me.name not in BUILTIN_META:
            # an event the statechart's code fired with notify(): it is part of the macro steps' sent events like any other
            self._cur.append(('event sent', me.name, dict(me.data)))

    def act(self, prims, mode, library):
        def run_exec():
            self._cur = []
            steps = self.it.execute(max_steps=300)
            if len(steps) >= 300:
                raise Abandon('chart does not quiesce')
            if mode == 'when':
                if not self.monitoring:
                    self.monitoring = True
                    self.block = []
                    self.mblock = []
                self.block.extend(steps)
                self.mblock.extend(self._cur)
        for p in prims:
            if p[0] == 'send':
                self.it.queue(Event(p[1], **p[2]))
                run_exec()
            elif p[0] == 'wait':
                self.it.clock.time += p[1]
                run_exec()
            elif p[0] == 'reproduce':
                for prims2 in library[p[1]]:
                    self.act(prims2, mode, library)
                    run_exec()
        run_exec()

    def then(self):
        self.monitoring = False


def in_block(mblock, what, name):
    """truth from what the interpreter announced while the block ran (not from the MacroStep objects)"""
    return ('state ' + what, name) in [x[:2] for x in mblock]


def fired(mblock, name=None, params=None):
    for x in mblock:
        if x[0] == 'event sent' and (name is None or x[1] == name) and all(x[2].get(k, None) == v for k, v in (params or {}).items()):
            return True
    return False


def gen_assertion(st, sp, plain, want_true):
    """(text lines, truth of the asserted fact).  The fact is chosen so that its truth is `want_true` when possible."""
    it, block = plain.it, plain.mblock
    names = sorted(sp.states)
    kinds = ['entered', 'not entered', 'exited', 'not exited', 'active', 'not active', 'fired', 'fired_with', 'not fired',
             'no event', 'variable', 'variable not', 'expr', 'expr not', 'final', 'not final']
    kind = st.pick(kinds)
    sent = [(x[1], x[2]) for x in block if x[0] == 'event sent']
    conf = it.configuration
    v = it.context.get('v')

    def choose(pos, neg):
        """pick a witness making the positive fact true (pos) or false (neg) as required"""
        pool = pos if want_true else neg
        if not pool:
            pool = pos or neg
        return st.pick(sorted(pool, key=repr))
    if kind in ('entered', 'not entered', 'exited', 'not exited'):
        what = 'entered' if 'entered' in kind else 'exited'
        yes = [n for n in names if in_block(block, what, n)]
        no = [n for n in names if n not in yes]
        negated = kind.startswith('not')
        n = choose(no, yes) if negated else choose(yes, no)
        fact = in_block(block, what, n)
        return ['state %s is %s%s' % (n, 'not ' if negated else '', what)], (not fact) if negated else fact, kind
    if kind in ('active', 'not active'):
        yes, no = list(conf), [n for n in names if n not in conf]
        negated = kind.startswith('not')
        n = choose(no, yes) if negated else choose(yes, no)
        fact = n in conf
        return ['state %s is %sactive' % (n, 'not ' if negated else '')], (not fact) if negated else fact, kind
    if kind in ('fired', 'not fired'):
        evs = ['ea', 'eb', 'ec', 'ed', 'ez', 'ey', 'zz', 'na', 'nb']
        yes = sorted({n for n, _ in sent})
        no = [n for n in evs if n not in yes]
        negated = kind == 'not fired'
        n = choose(no, yes) if negated else choose(yes, no)
        fact = fired(block, n)
        return ['event %s is %sfired' % (n, 'not ' if negated else '')], (not fact) if negated else fact, kind
    if kind == 'fired_with':
        if sent and not want_true and st.flag(1, 3):
            # the event was fired, but with no parameter of that name: the assertion is false
            n, _ = st.pick(sent)
            if st.flag(1, 2):
                return ['event %s is fired with nosuch=1' % n], False, 'fired_with_unknown_parameter'
            return ['event %s is fired' % n, '  | parameter | value |', '  | nosuch | 1 |'], False, 'fired_with_unknown_parameter_table'
        if sent and not want_true and st.flag(1, 4):
            # the event was fired, but not with this (falsy) value of its parameter
            n, data = st.pick(sent)
            val = st.pick(['0', 'False', 'None', "''", '[]'])
            if st.flag(1, 2):
                return ['event %s is fired with uid=%s' % (n, val)], False, 'fired_with_falsy_value'
            return ['event %s is fired' % n, '  | parameter | value |', '  | uid | %s |' % val], False, 'fired_with_falsy_value_table'
        if sent and (want_true or st.flag(1, 2)):
            n, data = st.pick(sent)
            uid = data['uid'] if want_true else data['uid'] + 5000
        else:
            n, uid = 'ea', 424242
        fact = fired(block, n, {'uid': uid})
        form = st.choice(3)
        if form == 0:
            return ['event %s is fired with uid=%d' % (n, uid)], fact, kind
        if form == 1:
            return ['event %s is fired' % n, '  | parameter | value |', '  | uid | %d |' % uid], fact, kind + '_table'
        # both documented ways at once: the inline parameter and additional ones in a table; when the assertion is to be
        # false it is the table row that is wrong while the inline parameter matches a fired event
        if sent:
            n, data = st.pick(sent)
            uid = data['uid']
        tag = 't%d' % uid if want_true else 'nope'
        fact = fired(block, n, {'uid': uid, 'tag': tag})
        return ['event %s is fired with uid=%d' % (n, uid), '  | parameter | value |', '  | tag | %r |' % tag], fact, kind + '_inline_and_table'
    if kind == 'no event':
        return ['no event is fired'], not sent, kind
    if kind in ('variable', 'variable not'):
        val = v if (want_true != (kind == 'variable not')) else v + 1
        fact = (v == val)
        if kind == 'variable':
            return ['variable v equals %d' % val], fact, kind
        return ['variable v does not equal %d' % val], not fact, kind
    if kind in ('expr', 'expr not'):
        val = v if (want_true != (kind == 'expr not')) else v + 1
        expr = st.pick(['v == %d', 'v >= %d and v <= %d'])
        expr = expr % ((val,) if expr.count('%d') == 1 else (val, val))
        fact = (v == val)
        if kind == 'expr':
            return ['expression "%s" holds' % expr], fact, kind
        return ['expression "%s" does not hold' % expr], not fact, kind
    fact = it.final
    if kind == 'final':
        return ['statechart is in a final configuration'], fact, kind
    return ['statechart is not in a final configuration'], not fact, kind


def run(ch, tier):
    res = Result()
    cfg = swarm(ch.s('cfg'), Cfg(sends=True, bump=True, delays=False, final=True, eventless=False), tier)
    cfg.max_states = min(cfg.max_states, 8)
    cfg.eventless = False
    cfg.notify = ch.s('cfg').flag(1, 2)      # half of the charts also fire events with notify()
    if ch.s('cfg').flag(1, 3):
        cfg.history = cfg.force_history = True
    sp = gen_spec(ch.s('chart'), cfg)
    # behave runs Interpreter.execute() without bound: the chart must quiesce, so code only sends events nothing reacts to
    triggers = {t.event for t in sp.trans}

    def quiet(sends):
        return [(k, (n if n not in triggers else ('ez' if i % 2 else 'ey')), d) for i, (k, n, d) in enumerate(sends)]
    for s_ in sp.states.values():
        s_.entry_sends, s_.exit_sends = quiet(s_.entry_sends), quiet(s_.exit_sends)
    for t_ in sp.trans:
        t_.sends = quiet(t_.sends)
    # v starts beyond the small-int cache, so that identity and equality of integers differ
    sc = build_api(sp, preamble='v = 1000\nw = []\nu = [[]]\nbox = P.newbox()')
    st = ch.s('scen')
    events = (sorted({t.event for t in sp.trans if t.event}) or ['ea']) + ['zz']
    library = {}        # scenario name -> list of primitive action lists (its given/when steps)
    scenarios = []
    lines = ['Feature: generated', '']
    background = []
    if st.flag(1, 3):
        # a Background: its steps run before the steps of every scenario (and are not part of any scenario)
        lines.append('  Background:')
        bfirst = True
        for _ in range(st.int(1, 2)):
            tl, prims, k = gen_action(st, sp, events, set(), allow_compound=False)
            lines.append('    %s %s' % ('Given' if bfirst else 'And', tl[0]))
            lines.extend('    ' + x for x in tl[1:])
            bfirst = False
            background.append(prims)
        lines.append('')
        res.stats['features_with_background'] += 1
    nscen = st.int(3, 6)
    for si in range(nscen):
        name = 'scenario %d' % si
        lines.append('  Scenario: %s' % name)
        plain = Plain(sc)
        bg_steps = []
        try:
            for prims in background:
                plain.act(prims, 'given', library)
                bg_steps.append(('given', 'background step', 'passed'))    # the report lists them with every scenario
        except (sx.NonDeterminismError, sx.ConflictingTransitionsError):
            raise Abandon('chart is non-deterministic under this scenario (not a BDD verdict question)')
        plain.act([], 'given', library) if False else None
        steps = list(bg_steps)          # (type, text lines, expected status or None)
        mine = []
        first = True
        used_kinds = []
        try:
            for _ in range(st.int(0, 3)):
                tl, prims, k = gen_action(st, sp, events, set(library), live=live_events(sp, plain))
                lines.append('    %s %s' % ('Given' if first else 'And', tl[0]))
                lines.extend('    ' + x for x in tl[1:])
                first = False
                plain.act(prims, 'given', library)
                mine.append(prims)
                steps.append(('given', tl[0], 'passed'))
                used_kinds.append(k)
            nblocks = st.int(1, 2)
            for b in range(nblocks):
                firstw = True
                cur = None
                for _ in range(st.int(1, 5 if cfg.force_history else 3)):
                    # a given-step may sit among the when-steps of a block: what it executes is not part of the monitored block
                    stype = 'when' if firstw or not st.flag(1, 5) else 'given'
                    tl, prims, k = gen_action(st, sp, events, set(library), live=live_events(sp, plain))
                    lines.append('    %s %s' % ('And' if cur == stype else 'When' if stype == 'when' else 'Given', tl[0]))
                    lines.extend('    ' + x for x in tl[1:])
                    firstw = False
                    cur = stype
                    plain.act(prims, stype, library)
                    mine.append(prims)
                    steps.append((stype, tl[0], 'passed'))
                    used_kinds.append(k)
                    if stype == 'given':
                        res.stats['given_steps_inside_a_block_of_when_steps'] += 1
                plain.then()
                firstt = True
                last_block = b == nblocks - 1
                ntrue = st.int(0, 2)
                for a in range(ntrue + (1 if last_block else 0)):
                    under_test = last_block and a == ntrue
                    want = st.flag(1, 2) if under_test else True
                    for _try in range(6):
                        tl, truth, k = gen_assertion(st, sp, plain, want)
                        if under_test or truth:
                            break
                    if not under_test and not truth:
                        continue
                    lines.append('    %s %s' % ('Then' if firstt else 'And', tl[0]))
                    lines.extend('    ' + x for x in tl[1:])
                    firstt = False
                    steps.append(('then', tl[0], 'passed' if truth else 'failed', k))
                    # sismic.testing predicates agree with the micro steps
                    cross = cross_check(sp, plain)
                    if cross:
                        return res.fail('testing-predicate', cross, chart=sp.describe())
                if firstt:      # a block needs at least one then-step to close it
                    lines.append('    Then state %s is %sactive' % (sp.root, '' if sp.root in plain.it.configuration else 'not '))
                    steps.append(('then', 'state %s is ...active' % sp.root, 'passed', 'active'))
        except (sx.NonDeterminismError, sx.ConflictingTransitionsError):
            raise Abandon('chart is non-deterministic under this scenario (not a BDD verdict question)')
        library[name] = mine
        scenarios.append((name, steps, plain, used_kinds))
        lines.append('')
    text = '\n'.join(lines) + '\n'
    # ---------------- run behave
    tmp = tempfile.mkdtemp(prefix='sim-c19-')
    captured = []
    try:
        fpath = os.path.join(tmp, 'gen.feature')
        with open(fpath, 'w') as f:
            f.write(text)
        out = os.path.join(tmp, 'report.json')
        buf = io.StringIO()
        with redirect_stdout(buf), redirect_stderr(buf):
            rc = execute_bdd(sc, [fpath], interpreter_klass=klass_factory(captured),
                             behave_parameters=['-f', 'json', '-o', out, '--no-summary', '--no-capture', '--no-capture-stderr', '--no-logcapture'])
        try:
            report = json.load(open(out))
        except Exception as e:
            return res.fail('no-report', 'behave wrote no usable report (rc=%s): %s / %s' % (rc, e, buf.getvalue()[-300:]), feature=text)
    finally:
        shutil.rmtree(tmp, ignore_errors=True)
    elements = [e for feat in report for e in feat.get('elements', []) if e.get('type') == 'scenario']
    if len(elements) != len(scenarios):
        return res.fail('report-shape', '%d scenarios reported, %d written' % (len(elements), len(scenarios)), feature=text)
    if len(captured) != len(scenarios):
        return res.fail('report-shape', '%d interpreters created for %d scenarios' % (len(captured), len(scenarios)), feature=text)
    expected_rc = 1 if any(s[2] == 'failed' for _, steps, _, _ in scenarios for s in steps) else 0
    for (name, steps, plain, used_kinds), el, it in zip(scenarios, elements, captured):
        got = [(s.get('result') or {}).get('status', 'skipped') for s in el['steps']]
        want = []
        failed = False
        for s in steps:
            want.append('skipped' if failed else s[2])
            if s[2] == 'failed':
                failed = True
        ctx = dict(chart=sp.describe(), feature=text, scenario=name)
        if got != want:
            i = next((i for i, (x, y) in enumerate(zip(got, want)) if x != y), min(len(got), len(want)))
            st_ = steps[i] if i < len(steps) else ('?', '?', '?')
            err = (el['steps'][i].get('result') or {}).get('error_message') if i < len(el['steps']) else None
            return res.fail('wrong-verdict' if st_[0] == 'then' else 'step-failed',
                            '%s, step %d "%s %s": behave reports %s, the independent evaluation says %s%s' % (
                                name, i, st_[0], st_[1], got[i] if i < len(got) else None, want[i] if i < len(want) else None,
                                ' (%s)' % str(err)[:150].replace('\n', ' ') if err else ''), **ctx)
        real = (it.configuration, it.context.get('v'), it.context['P'].log, it.final, float(it.clock.time))
        mine = (plain.it.configuration, plain.it.context.get('v'), plain.it.context['P'].log, plain.it.final, float(plain.it.clock.time))
        if real != mine:
            fields = ['configuration', 'context v', 'executed code (act entries show the event name and its uid parameter)', 'final', 'clock']
            f, x, y = [(f, x, y) for f, x, y in zip(fields, real, mine) if x != y][0]
            if f.startswith('executed'):
                j = next((j for j, (a, b) in enumerate(zip(x, y)) if a != b), min(len(x), len(y)))
                x, y = x[j:j + 2], y[j:j + 2]
            return res.fail('given-when-semantics', '%s: after the scenario the interpreter driven by behave differs from the independent run in %s: '
                            '%r vs %r' % (name, f, x, y), **ctx)
        for k in used_kinds:
            res.stats['action_' + k] += 1
        for s in steps:
            if s[0] == 'then':
                res.stats['assert_%s_%s' % (s[3].replace(' ', '_'), s[2])] += 1
        if len([s for s in steps if s[0] != 'then']) >= 2:
            res.nontrivial.add(fp((sp.fingerprint(), [s[:3] for s in steps])))
    if (rc != 0) != (expected_rc != 0):
        return res.fail('exit-code', 'execute_bdd returned %r, expected %s' % (rc, 'non-zero' if expected_rc else 0), feature=text)
    res.sample = {'chart': sp.describe()[:10], 'feature': text.splitlines()[:30]}
    return res


def cross_check(sp, plain):
    block = plain.block
    mb = plain.mblock
    for n in sp.states:
        if testing.state_is_entered(block, n) != in_block(mb, 'entered', n):
            return 'testing.state_is_entered(%r) = %r over the macro steps of the block disagrees with the state-entered meta-events announced while it ran' % (n, testing.state_is_entered(block, n))
        if testing.state_is_exited(block, n) != in_block(mb, 'exited', n):
            return 'testing.state_is_exited(%r) = %r disagrees with the micro steps' % (n, testing.state_is_exited(block, n))
    for e in ['ea', 'eb', 'ec', 'ed', 'ez', 'ey', 'zz', None]:
        if testing.event_is_fired(block, e) != fired(mb, e):
            return 'testing.event_is_fired(%r) = %r disagrees with the micro steps' % (e, testing.event_is_fired(block, e))
        cons = any(ms.event is not None and (e is None or ms.event.name == e) for ms in block)
        if testing.event_is_consumed(block, e) != cons:
            return 'testing.event_is_consumed(%r) disagrees with the macro steps' % e
    proc = any(m.transition is not None for ms in block for m in ms.steps)
    if testing.transition_is_processed(block) != proc:
        return 'testing.transition_is_processed() disagrees with the micro steps'
    return None

"""C17 - renaming and copying states preserves behaviour (DESIGN.md section 4, C17)."""
from sim.chart import Cfg, swarm, gen_spec, build_api, PREAMBLE, tid, legal_transition
from sim.engine import Result, Abandon, fp
from sim.semrun import Sim, standard_ops, replay_script
from sim.checks import common

from sismic.exceptions import StatechartError
from sismic.model import Statechart, CompoundState, OrthogonalState, BasicState, Transition

ID = 'C17'
LEVEL = 'exploration'
BUDGET = {'quick': 20, 'thorough': 240}
BLOCK = 25
STREAM_ORDER = ['ops', 'guards', 'rename', 'chart', 'cfg']
RULE = ('well-formed chart S with internal transitions, history and orthogonal regions. (a) an order-preserving renaming of a drawn subset '
        'of its states (a suffix is appended, which keeps the lexicographic order of all names) is applied with rename_state and S and the '
        'renamed chart are driven by the same seeded script in lock-step: macro steps must be equal modulo the renaming, Transition.internal '
        'unchanged for every transition. (b) S is plugged as a guest into a host (leaf under a compound root, or inside one region of an '
        'orthogonal root) with copy_from_statechart and an injective renaming function; the plugged copy must produce the guest macro steps '
        'modulo renaming. In a third of the runs states and transitions carry contracts that are checked in every run: the same conditions must be evaluated at the same points. non-trivial = a run in which a renamed (or copied) state that owns an internal transition or is referred to by '
        'initial/memory took part in a macro step; distinct = distinct (chart, renamed set, script)')
COMPONENTS = {'real': common.REAL + ['Statechart.rename_state', 'Statechart.copy_from_statechart'], 'stub': common.STUB}
ASSUMPTIONS = common.ASSUME + ['guest charts have no final state (a final child of the guest root means something else once nested)']
LEVEL_TEXT = 'differential lock-step exploration modulo renaming'
LEVEL_NOTE = 'trusted: the name-substitution of macro-step signatures'
TECHNIQUE = 'deterministic simulation: lock-step differential runs of a chart and its renamed / plugged copy under one seeded script'


def msig(ms, back):
    """macro step signature with names mapped through `back` (None drops the name)"""
    if ms is None:
        return None
    out = []
    for m in ms.steps:
        en = [back(s) for s in m.entered_states]
        ex = [back(s) for s in m.exited_states]
        en = [s for s in en if s is not None]
        ex = [s for s in ex if s is not None]
        tr = None
        if m.transition is not None:
            tr = (back(m.transition.source), back(m.transition.target) if m.transition.target is not None else None,
                  m.transition.event, tid(m.transition), m.transition.internal)
        if tr is None and not en and not ex and not m.sent_events and m.event is None:
            continue
        out.append((repr(m.event), tr, en, ex, [repr(e) for e in m.sent_events]))
    return (ms.time, out)


def run(ch, tier):
    cs = ch.s('cfg')
    mode = cs.weighted([('rename', 2), ('copy', 2)])
    res = Result()
    cfg = swarm(cs, Cfg(sends=True, bump=True, internal=True, delays=False, final=(mode == 'rename')), tier)
    if mode == 'copy':
        cfg.final = False
    # in a third of the runs states and transitions carry contracts, checked in all runs: a renamed / copied statechart
    # evaluates the same conditions at the same points
    contracts = cfg.contracts = cs.flag(1, 3)
    if cs.flag(1, 3):       # two history states under one parent: which one comes first among the children depends on the names
        cfg.history = cfg.force_history = True
        cfg.max_states = max(cfg.max_states, 8)
    sp = gen_spec(ch.s('chart'), cfg)
    rs = ch.s('rename')
    # "twin" transitions: equal in every field except the priority, with one of intermediate priority in between
    # (the generated ones all differ by their action text, so none of them ever compare equal)
    twins = []
    srcs_ = [n for n in sorted(sp.states) if sp.kind(n) in ('basic', 'compound', 'orthogonal')]
    evs_ = sorted({t.event for t in sp.trans if t.event})
    if srcs_ and evs_ and rs.flag(1, 2):
        src = rs.pick(srcs_)
        tg = [n for n in sorted(sp.states) if legal_transition(sp, src, n)]
        if len(tg) >= 2:
            t2 = rs.pick(tg)
            t3 = rs.pick([n for n in tg if n != t2])
            twins = [(src, t2, rs.pick(evs_), t3)]

    def add_twins(chart):
        for src, t2, evn, t3 in twins:
            chart.add_transition(Transition(src, t2, event=evn, action='P.act(9000, event)', priority=-5))
            chart.add_transition(Transition(src, t3, event=evn, action='P.act(9001, event)', priority=0))
            chart.add_transition(Transition(src, t2, event=evn, action='P.act(9000, event)', priority=5))
            # and two that differ only by the text of their (equivalent) guard
            chart.add_transition(Transition(src, t3, event='ez', guard='v >= 0', action='P.act(9002, event)'))
            chart.add_transition(Transition(src, t3, event='ez', guard='0 <= v', action='P.act(9002, event)'))
    base = build_api(sp)
    add_twins(base)
    a = Sim(sp, statechart=base, ignore_contract=not contracts)
    outs = []
    touched = set()
    for r in standard_ops(a, ch, tier, hi=25 if tier == 'quick' else 60):
        res.stats['steps'] += 1
        outs.append((msig(r.ms, lambda s: s), r.exc_name(), sorted(r.post), r.ctx_after, [e for e in r.log if e[0] != 'guard']))
        if r.ms is not None:
            touched.update(r.ms.entered_states)
            touched.update(r.ms.exited_states)
            touched.update(t.source for t in r.ms.transitions)
    script = a.script
    if mode == 'rename':
        sc = build_api(sp)
        add_twins(sc)
        before = {tid(t): t.internal for t in sc.transitions}
        ren = {}
        for n in sorted(sp.states):
            if rs.flag(1, 2):
                ren[n] = n + rs.pick(['x', '_', 'a', 'zz'])
        # the property quantifies over renamings that keep the relative lexicographic order of the names: with names that are
        # prefixes of each other a suffix can change it ('k' < 'ka' but 'kzz' > 'ka'); such renamings are thinned out
        allnames = sorted(sp.states)
        while [ren.get(n, n) for n in allnames] != sorted(ren.get(n, n) for n in allnames) or \
                len({ren.get(n, n) for n in allnames}) != len(allnames) or any(v in sp.states for v in ren.values()):
            bad = [n for n in sorted(ren) if ren[n] in sp.states]
            del ren[bad[0] if bad else sorted(ren)[-1]]
        todo = rs.shuffle(sorted(ren))
        if len(allnames) >= 2 and rs.flag(1, 2):
            # a renaming applied one state at a time may run into a name that is still taken: that call is refused
            # (StatechartError) and must leave everything as it was; the renaming then goes on
            x = rs.pick(allnames)
            y = rs.pick([n for n in allnames if n != x])
            at = rs.choice(len(todo) + 1)
            todo.insert(at, (x, y))
            res.stats['refused_rename_in_the_middle_of_a_renaming'] += 1
        cur = {n: n for n in allnames}       # original name -> current name
        for item in todo:
            if isinstance(item, tuple):
                try:
                    sc.rename_state(cur[item[0]], cur[item[1]])
                except StatechartError:
                    continue
                return res.fail('invalid-rename-accepted', 'rename_state(%r, %r) succeeded although the new name is taken' % (cur[item[0]], cur[item[1]]),
                                chart=sp.describe(), renaming=ren)
            sc.rename_state(item, ren[item])
            cur[item] = ren[item]
        inv = {v: k for k, v in ren.items()}
        back = lambda s: inv.get(s, s)   # noqa
        ctx = dict(chart=sp.describe(), renaming=ren, script=[repr(o)[:60] for o in script][:30])
        after = {tid(t): t.internal for t in sc.transitions}
        if after != before:
            bad = sorted(i for i in before if before[i] != after[i])
            return res.fail('internal-flag-changed', 'rename_state changed Transition.internal of %s (now %s)' % (
                ['t%d' % i for i in bad], [repr(t) for t in sc.transitions if tid(t) in bad]), **ctx)
        try:
            sc.validate()
        except Exception as e:
            return res.fail('renamed-chart-invalid', 'validate() fails after renaming: %s' % e, **ctx)
        b = Sim(sp, statechart=sc, ignore_contract=not contracts)
        interesting = set(ren) & touched
    else:
        guest = build_api(sp)
        add_twins(guest)
        host_kind = rs.pick(['compound-root', 'region'])
        host = Statechart('host', preamble=PREAMBLE)
        if host_kind == 'compound-root':
            host.add_state(CompoundState('HROOT', initial='LEAF'), None)
            host.add_state(BasicState('LEAF'), 'HROOT')
            host.add_state(BasicState('OTHER'), 'HROOT')
        else:
            host.add_state(OrthogonalState('HROOT'), None)
            host.add_state(CompoundState('R1', initial='LEAF'), 'HROOT')
            host.add_state(BasicState('LEAF'), 'R1')
            host.add_state(CompoundState('R2', initial='X'), 'HROOT')
            host.add_state(BasicState('X'), 'R2')
            host.add_state(BasicState('Y'), 'R2')
            host.add_transition(Transition('X', 'Y', event='hx'))
        prefix = rs.pick(['g_', 'zz', 'A'])
        fn = lambda s: prefix + s    # noqa
        reuse = None
        inner = sorted(n for n in sp.states if n != sp.root)
        if inner and prefix in ('zz', 'A') and rs.flag(1, 2):
            # the renaming function may give a copied state the name the guest's root had (the root itself takes the name of the
            # state it replaces, so that name is free); chosen so that the relative order of the guest's names is kept
            reuse = inner[0] if prefix == 'zz' else inner[-1]
            fn = lambda s: sp.root if s == reuse else prefix + s    # noqa
            res.stats['renaming_function_reuses_the_name_of_the_guest_root'] += 1
        ctx = dict(chart=sp.describe(), host=host_kind, renaming_prefix=prefix, renamed_to_the_root_name=reuse,
                   script=[repr(o)[:60] for o in script][:30])
        try:
            host.copy_from_statechart(guest, source=sp.root, replace='LEAF', renaming_func=fn)
            host.validate()
        except Exception as e:
            return res.fail('copy-failed', 'copy_from_statechart raised %s: %s' % (type(e).__name__, str(e)[:100]), **ctx)
        hostonly = {'HROOT', 'R1', 'R2', 'X', 'Y', 'OTHER'}

        def back(s):
            if s in hostonly:
                return None
            if s == 'LEAF':
                return sp.root
            if reuse is not None and s == sp.root:
                return reuse
            return s[len(prefix):] if s.startswith(prefix) else s
        internal_guest = {tid(t): t.internal for t in guest.transitions}
        internal_host = {tid(t): t.internal for t in host.transitions if t.action}
        if internal_host != internal_guest:
            bad = sorted(i for i in internal_guest if internal_guest[i] != internal_host.get(i))
            return res.fail('internal-flag-changed', 'copy_from_statechart: transitions %s changed Transition.internal (or were lost)' % (
                ['t%d' % i for i in bad]), **ctx)
        copied = len([t for t in host.transitions if t.action])
        if copied != len(guest.transitions):
            return res.fail('transitions-lost-by-copy', 'the guest declares %d transitions, %d arrived in the host' % (len(guest.transitions), copied), **ctx)
        b = Sim(sp, statechart=host, ignore_contract=not contracts)
        interesting = touched
    for i, r in enumerate(replay_script(b, script)):
        conf = sorted(x for x in (back(s) for s in r.post) if x is not None)
        got = (msig(r.ms, back), r.exc_name(), conf, r.ctx_after, [e for e in r.log if e[0] != 'guard'])
        if got != outs[i]:
            fields = ['macro step (names mapped back)', 'exception', 'configuration', 'context v', 'executed code']
            f, x, y = [(f, x, y) for f, x, y in zip(fields, got, outs[i]) if x != y][0]
            return res.fail('behaviour-differs', 'step %d of the %s chart: %s is %r, original: %r' % (
                i, 'renamed' if mode == 'rename' else 'host', f, x, y), **ctx)
    res.stats['runs_' + mode] += 1
    res.stats['runs_with_twin_transitions'] += int(bool(twins))
    res.stats['runs_with_contracts_checked'] += int(contracts)
    special = [t for t in sp.trans if t.tgt is None and t.src in interesting]
    if special or any(s.initial in interesting or s.memory in interesting for s in sp.states.values()):
        res.nontrivial.add(fp((sp.fingerprint(), mode, sorted(interesting), [repr(o) for o in script])))
        if special:
            res.stats['internal_transition_owner_renamed_or_copied'] += 1
        if res.sample is None:
            res.sample = ctx
    res.sim_time = float(a.now())
    return res

"""Executable reference model of the documented semantics (DESIGN.md section 3.1), on ChartSpec.
Shares no code with sismic.  Every function is pure in its arguments except the explicit
state objects (memory dict, QueueModel)."""
from fractions import Fraction as F

from sim.chart import HIST


def legal(sp, conf):
    """None if `conf` (set of names) is a legal configuration, else a reason (C02's definition)."""
    if not conf:
        return None
    if sp.root not in conf:
        return 'root %s is not active' % sp.root
    for n in sorted(conf):
        s = sp.states[n]
        if s.parent is not None and s.parent not in conf:
            return 'parent %s of active state %s is not active' % (s.parent, n)
        if s.kind in HIST:
            return 'history state %s is active' % n
        kids = [c for c in s.children if c in conf]
        if s.kind == 'compound' and len(kids) != 1:
            if not (len(kids) == 0 and s.initial is None):
                return 'compound state %s has %d active children %s' % (n, len(kids), sorted(kids))
        if s.kind == 'orthogonal' and len(kids) != len(s.children):
            return 'orthogonal state %s has %d of %d children active (%s missing)' % (
                n, len(kids), len(s.children), sorted(set(s.children) - set(kids)))
    return None


class Selection:
    __slots__ = ('enabled', 'candidates', 'fired', 'consume', 'err', 'eventless', 'reasons')


def select(sp, conf, evname, truth):
    """Steps 3-6 of the reference macro step.  truth: transition index -> bool for guarded ones."""
    sel = Selection()
    en = [t for t in sp.trans
          if t.src in conf
          and (t.event is None or (evname is not None and t.event == evname))
          and (not t.guard or truth.get(t.i, True))]
    evl = [t for t in en if t.event is None]
    sel.enabled = en
    sel.eventless = bool(evl)
    cand = evl if evl else [t for t in en if t.event is not None]
    sel.candidates = cand
    sel.consume = (not evl) and evname is not None
    fired = []
    reasons = set()
    for t in cand:
        d = sp.desc(t.src)
        if any(u.src in d for u in cand):
            reasons.add('inner-first')
            continue
        if any(u.src == t.src and u.prio > t.prio for u in cand):
            reasons.add('priority')
            continue
        fired.append(t)
    if evl and any(t.event is not None for t in en):
        reasons.add('eventless-preempts')
    sel.reasons = reasons
    err = None
    if len(fired) > 1:
        nd = cf = False
        for i in range(len(fired)):
            for j in range(i + 1, len(fired)):
                a, b = fired[i], fired[j]
                if a.src == b.src:
                    nd = True
                    continue
                L = sp.lca(a.src, b.src)
                # sources on one ancestor line cannot both fire (inner-first), so L separates them
                if L is None or sp.kind(L) != 'orthogonal' or a.src in sp.anc(b.src) or b.src in sp.anc(a.src):
                    nd = True
                    continue
                for t in (a, b):
                    if t.tgt is None:
                        continue
                    c = sp.child_towards(L, t.src)
                    if t.tgt != c and t.tgt not in sp.desc(c):
                        cf = True
        err = 'NonDeterminismError' if nd else ('ConflictingTransitionsError' if cf else None)
    fired.sort(key=lambda t: (-sp.depth(t.src), t.src))
    sel.fired = fired
    sel.err = err
    return sel


def stabilise(sp, conf, mem, entered):
    """Default entry until stable; appends entered names (history pseudo-states excluded)."""
    while True:
        changed = False
        for n in sp.canon(conf):
            s = sp.states[n]
            if s.kind == 'final' and s.parent == sp.root:
                conf.clear()
                return
            if s.kind in HIST:
                conf.discard(n)
                for m in sp.canon(mem.get(n, [s.memory])):
                    if m not in conf:
                        conf.add(m)
                        entered.append(m)
                changed = True
                break
            kids = [c for c in s.children if c in conf]
            if s.kind == 'compound' and not kids and s.initial is not None:
                conf.add(s.initial)
                entered.append(s.initial)
                changed = True
                break
            if s.kind == 'orthogonal' and len(kids) < len(s.children):
                for c in sorted(s.children):
                    if c not in conf:
                        conf.add(c)
                        entered.append(c)
                changed = True
                break
        if not changed:
            return


def scope_root(sp, t):
    d = sp.lca(t.src, t.tgt)
    return d, sp.child_towards(d, t.src)


def record_memory(sp, conf, exited, mem):
    """History memory from the configuration just before `exited` states are left."""
    for n in exited:
        s = sp.states[n]
        if s.kind == 'compound':
            for h in s.children:
                k = sp.kind(h)
                if k == 'shallow':
                    mem[h] = [x for x in s.children if x in conf]
                elif k == 'deep':
                    mem[h] = [x for x in sp.desc(n) if x in conf]


def apply(sp, conf, mem, t):
    """Process transition t on conf (mutated).  Returns (exited set, entered list w/o pseudo-states)."""
    if t.tgt is None:
        return set(), []
    d, c = scope_root(sp, t)
    exited = set(n for n in [c] + sp.desc(c) if n in conf)
    record_memory(sp, conf, exited, mem)
    conf -= exited
    path = [t.tgt] + sp.anc(t.tgt)
    if d is not None:
        path = path[:path.index(d)]
    entered = []
    for n in reversed(path):
        conf.add(n)
        if sp.kind(n) not in HIST:
            entered.append(n)
    stabilise(sp, conf, mem, entered)
    return exited, entered


def initial_conf(sp, mem=None):
    conf = {sp.root}
    ent = [sp.root]
    stabilise(sp, conf, mem if mem is not None else {}, ent)
    return conf, ent


class QueueModel:
    """Steps 2 and 8: two queues ordered by (due time, insertion number)."""

    def __init__(self):
        self.internal = []
        self.external = []
        self.n = 0

    def put(self, internal, due, uid, name):
        self.n += 1
        q = self.internal if internal else self.external
        q.append((F(due), self.n, uid, name))
        q.sort()

    def head(self, T):
        T = F(T)
        for q in (self.internal, self.external):
            if q and q[0][0] <= T:
                return q, q[0]
        return None, None

    def pop(self, T):
        q, h = self.head(T)
        if q is not None:
            q.pop(0)
        return h

    def pending(self):
        return len(self.internal) + len(self.external)

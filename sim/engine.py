"""Engine of the deterministic simulator: choice sequences, seeded batches, shrinking, replay files,
evidence files and known findings.  See DESIGN.md section 1.2 / 1.5 / 6.

A *check* is a module in sim.checks exposing

    ID        = 'C14'
    LEVEL     = 'exploration' | 'fault_enumeration'
    RULE      = text: how cases are generated, what makes one non-trivial / distinct
    COMPONENTS= {'real': [...], 'stub': [...]}
    ASSUMPTIONS = [...]
    STREAM_ORDER = ['ops', 'chart', ...]      (order in which the shrinker attacks the streams)
    def run(ch, tier) -> Result
    def classify(result, record, tier) -> Optional[str]   (optional: known-finding classifier key)

`run` must be a pure function of the Choices object and the sismic tree.
"""
import collections
import faulthandler
import hashlib
import json
import multiprocessing
import os
import random
import sys
import time
import traceback
from concurrent.futures import ProcessPoolExecutor, FIRST_COMPLETED, wait

VERIF = os.path.dirname(os.path.dirname(os.path.abspath(__file__)))
REPO = os.environ.get('SISMIC_SRC', '/repo')
if REPO not in sys.path[:1]:
    sys.path.insert(0, REPO)


def H(*parts) -> int:
    return int(hashlib.sha256(':'.join(str(p) for p in parts).encode()).hexdigest()[:16], 16)


def fp(obj) -> int:
    """Stable 64-bit fingerprint of a repr-able object (never uses hash())."""
    return int(hashlib.blake2b(repr(obj).encode(), digest_size=8).hexdigest(), 16)


# ----------------------------------------------------------------------------- choices

class Stream:
    """One named stream of decisions. generate mode: draws from its own PRNG and records;
    replay mode: reads the record (clamped; 0 when exhausted) and records the normalised values."""

    __slots__ = ('rng', 'rec', 'pos', 'used')

    def __init__(self, rng=None, rec=None):
        self.rng = rng
        self.rec = rec
        self.pos = 0
        self.used = []

    def choice(self, n: int) -> int:
        if n <= 1:
            return 0
        if self.rng is not None:
            v = self.rng.randrange(n)
        else:
            v = self.rec[self.pos] if self.pos < len(self.rec) else 0
            self.pos += 1
            if v >= n:
                v = n - 1
            elif v < 0:
                v = 0
        self.used.append(v)
        return v

    def exhausted(self) -> bool:
        """replay mode only: the record has no more values (every further choice is 0)"""
        return self.rng is None and self.pos >= len(self.rec)

    # helpers: 0 is always the simplest alternative
    def flag(self, num: int, den: int) -> bool:
        """True with probability num/den; recorded value 0 means False."""
        return self.choice(den) >= den - num

    def pick(self, seq):
        return seq[self.choice(len(seq))]

    def int(self, lo: int, hi: int) -> int:
        return lo + self.choice(hi - lo + 1)

    def weighted(self, pairs):
        """pairs: [(value, weight)], first is simplest."""
        total = sum(w for _, w in pairs)
        v = self.choice(total)
        for val, w in pairs:
            if v < w:
                return val
            v -= w
        return pairs[-1][0]

    def shuffle(self, seq):
        """Fisher-Yates driven by choices; all-zero choices give the identity permutation."""
        seq = list(seq)
        out = []
        while seq:
            out.append(seq.pop(self.choice(len(seq))))
        return out


class Choices:
    def __init__(self, seed=None, record=None):
        self.seed = seed
        self.record = record  # dict stream -> list (replay) or None (generate)
        self.streams = {}

    def s(self, name: str) -> Stream:
        st = self.streams.get(name)
        if st is None:
            if self.record is None:
                st = Stream(rng=random.Random(H(self.seed, name)))
            else:
                st = Stream(rec=list(self.record.get(name, ())))
            self.streams[name] = st
        return st

    def used(self):
        return {k: list(v.used) for k, v in sorted(self.streams.items())}


class Result:
    __slots__ = ('violation', 'stats', 'nontrivial', 'sample', 'sim_time', 'abandoned', 'extra')

    def __init__(self):
        self.violation = None      # dict(cls=..., msg=..., explained=...)
        self.stats = collections.Counter()
        self.nontrivial = set()    # 64-bit fingerprints of distinct non-trivial cases
        self.sample = None
        self.sim_time = 0.0
        self.abandoned = None      # reason string when the run was abandoned (other property)
        self.extra = None

    def fail(self, cls, msg, **explained):
        if self.violation is None:
            self.violation = {'cls': cls, 'msg': msg, 'explained': explained}
        return self


class RunTimeout(BaseException):
    """raised by the per-run alarm"""


def _on_alarm(signum, frame):
    raise RunTimeout()


class Abandon(Exception):
    """Raised inside a run when a discrepancy belonging to another property makes the rest of the
    run meaningless for this check (DESIGN 3.3)."""


# ----------------------------------------------------------------------------- running one case

def load_check(name):
    import importlib
    return importlib.import_module('sim.checks.' + name.lower())


def seed_for(check_id, batch_seed, i):
    return H(batch_seed, check_id, i)


def run_one(check, tier, seed=None, record=None):
    ch = Choices(seed=seed, record=record)
    # per-run watchdog in *CPU* seconds of this process (ITIMER_PROF), so that a loaded machine cannot trip it: a run costs
    # milliseconds to a few seconds of CPU (the enumerating checks in the thorough tier), a library that loops burns CPU for ever
    limit = getattr(check, 'RUN_LIMIT_CPU_S', 120)
    armed = False
    try:
        import signal
        import threading
        if threading.current_thread() is threading.main_thread():
            signal.signal(signal.SIGPROF, _on_alarm)
            signal.setitimer(signal.ITIMER_PROF, limit)
            armed = True
    except (ValueError, AttributeError):
        pass
    try:
        res = check.run(ch, tier)
    except Abandon as e:
        res = Result()
        res.abandoned = str(e) or 'other-property'
    except RunTimeout as e:
        # one run normally takes milliseconds: the library did not come back (endless stabilisation, endless loop ...)
        tb = e.__traceback__
        where = []
        while tb is not None:
            fn = tb.tb_frame.f_code.co_filename
            if os.sep + 'sismic' + os.sep in fn:
                where.append('%s:%d in %s' % (fn.rsplit(os.sep + 'sismic' + os.sep, 1)[-1], tb.tb_lineno, tb.tb_frame.f_code.co_name))
            tb = tb.tb_next
        res = Result()
        res.fail('library-hang', 'the run burnt %d s of CPU without finishing (a run normally takes milliseconds to seconds)' % limit,
                 busy_in=' <- '.join(reversed(where[-4:])) or 'harness code')
    except Exception as e:
        # An exception that escapes from *library* code while a check drives it through legitimate API calls
        # (the innermost frame is inside the sismic tree, and the check did not anticipate it) is an outcome
        # of the run - the library crashed where the property promises behaviour.  Anything raised by harness
        # code itself stays a harness error.
        tb = e.__traceback__
        last = None
        while tb is not None:
            last = tb
            tb = tb.tb_next
        fn = last.tb_frame.f_code.co_filename if last is not None else ''
        lib = os.path.join(os.path.abspath(REPO), 'sismic') + os.sep
        if not os.path.abspath(fn).startswith(lib):
            raise
        res = Result()
        res.fail('library-exception', '%s raised %s: %s (at %s:%d in %s) while the check was exercising it' % (
            'sismic', type(e).__name__, str(e)[:100], fn[len(lib):], last.tb_lineno, last.tb_frame.f_code.co_name))
    finally:
        if armed:
            signal.setitimer(signal.ITIMER_PROF, 0)
    return res, ch.used()


def tree_digest():
    h = hashlib.sha256()
    base = os.path.join(REPO, 'sismic')
    for root, dirs, files in sorted(os.walk(base)):
        dirs.sort()
        for f in sorted(files):
            if f.endswith('.py'):
                p = os.path.join(root, f)
                h.update(p[len(base):].encode())
                with open(p, 'rb') as fh:
                    h.update(fh.read())
    return h.hexdigest()[:16]


# ----------------------------------------------------------------------------- shrinking

def shrink(check, tier, record, cls, budget_s, order=None):
    """Delta-debugging over the recorded choice streams; keeps a candidate only if the same
    violation class persists.  Returns (record, result, attempts)."""
    t_end = time.time() + budget_s
    attempts = 0
    best = {k: list(v) + [1 << 30] for k, v in record.items()}   # sentinel: anything is smaller
    best_res = None

    def test(cand):
        nonlocal attempts, best, best_res
        attempts += 1
        try:
            res, used = run_one(check, tier, record=cand)
        except Exception:
            return False
        if res.violation is not None and res.violation['cls'] == cls and size(used) < size(best):
            best = used
            best_res = res
            return True
        return False

    def size(r):
        return (sum(len(v) for v in r.values()), sum(sum(v) for v in r.values()))

    test(best)  # normalise

    names = list(order or []) + [k for k in sorted(best) if k not in (order or [])]
    improved = True
    while improved and time.time() < t_end:
        improved = False
        before = size(best)
        for name in names:
            if name not in best:
                continue
            # pass 1: delete chunks
            n = len(best.get(name, []))
            chunk = max(1, n // 2)
            while chunk >= 1 and time.time() < t_end:
                i = 0
                while i < len(best.get(name, [])) and time.time() < t_end:
                    cur = best[name]
                    cand = dict(best)
                    cand[name] = cur[:i] + cur[i + chunk:]
                    if not test(cand):
                        i += chunk
                if chunk == 1:
                    break
                chunk //= 2
            # pass 2: zero chunks
            n = len(best.get(name, []))
            chunk = max(1, n // 2)
            while chunk >= 1 and time.time() < t_end:
                i = 0
                while i < len(best.get(name, [])) and time.time() < t_end:
                    cur = best[name]
                    if any(cur[i:i + chunk]):
                        cand = dict(best)
                        cand[name] = cur[:i] + [0] * len(cur[i:i + chunk]) + cur[i + chunk:]
                        test(cand)
                    i += chunk
                if chunk == 1:
                    break
                chunk //= 2
            # pass 3: lower single values
            i = 0
            while i < len(best.get(name, [])) and time.time() < t_end:
                v = best[name][i]
                for nv in (v // 2, v - 1):
                    if 0 < nv < v:
                        cand = dict(best)
                        cand[name] = best[name][:i] + [nv] + best[name][i + 1:]
                        if test(cand):
                            break
                i += 1
        if size(best) < before:
            improved = True
    return best, best_res, attempts


# ----------------------------------------------------------------------------- known findings

def load_known_findings():
    path = os.path.join(VERIF, 'known_findings.txt')
    out = {}
    if os.path.exists(path):
        for line in open(path):
            line = line.strip()
            if line.startswith('finding:'):
                fields = dict(f.split('=', 1) for f in line.split()[1:3] if '=' in f)
                out[(fields.get('property'), fields.get('key'))] = line.split(None, 3)[3] if len(line.split(None, 3)) > 3 else ''
    return out


# ----------------------------------------------------------------------------- batch

def _worker_block(args):
    check_name, tier, batch_seed, start, count, known_keys, per_block_s = args
    faulthandler.dump_traceback_later(max(120, per_block_s * 20), exit=True)
    check = load_check(check_name)
    out = {'runs': 0, 'stats': collections.Counter(), 'nontrivial': set(), 'sim_time': 0.0,
           'abandoned': collections.Counter(), 'violation': None, 'known': {}, 'sample': None,
           'harness': None, 'start': start}
    for i in range(start, start + count):
        seed = seed_for(check.ID, batch_seed, i)
        try:
            res, used = run_one(check, tier, seed=seed)
        except Exception:
            out['harness'] = {'run': i, 'seed': seed, 'trace': traceback.format_exc()}
            break
        out['runs'] += 1
        out['stats'].update(res.stats)
        if len(out['nontrivial']) < 20000:
            out['nontrivial'].update(res.nontrivial)
        out['sim_time'] += res.sim_time
        if res.abandoned:
            out['abandoned'][res.abandoned] += 1
        if out['sample'] is None and res.sample is not None and res.nontrivial:
            out['sample'] = res.sample
        if res.violation is not None:
            key = None
            if known_keys and hasattr(check, 'classify'):
                try:
                    key = check.classify(res, used, tier)
                except Exception:
                    out['harness'] = {'run': i, 'seed': seed, 'trace': traceback.format_exc()}
                    break
            if known_keys and hasattr(check, 'classify') and (key is None or key not in known_keys):
                # a raw failing run may mix several things: minimise briefly, then classify the minimal case
                try:
                    rec2, res2, _ = shrink(check, tier, used, res.violation['cls'], 4,
                                           getattr(check, 'STREAM_ORDER', None))
                    if res2 is not None:
                        key2 = check.classify(res2, rec2, tier)
                        if key2 is not None and key2 in known_keys:
                            key = key2
                except Exception:
                    out['harness'] = {'run': i, 'seed': seed, 'trace': traceback.format_exc()}
                    break
            if key is not None and key in known_keys:
                k = out['known'].setdefault(key, {'count': 0, 'first_run': i, 'seed': seed,
                                                  'msg': res.violation['msg']})
                k['count'] += 1
                continue
            out['violation'] = {'run': i, 'seed': seed, 'record': used, 'violation': res.violation,
                                'key': key}
            break
    faulthandler.cancel_dump_traceback_later()
    return out


def run_batch(check_name, tier, budget_s=None, workers=None, max_runs=None, batch_seed=None):
    check = load_check(check_name)
    t0 = time.time()
    batch_seed = int(os.environ.get('VERIF_SEED', '20260926')) if batch_seed is None else batch_seed
    if budget_s is None:
        budget_s = getattr(check, 'BUDGET', {}).get(tier, 20 if tier == 'quick' else 240)
        if os.environ.get('VERIF_BUDGET_S'):
            budget_s = float(os.environ['VERIF_BUDGET_S'])
    workers = workers or int(os.environ.get('VERIF_WORKERS', '16'))
    block = getattr(check, 'BLOCK', 50)
    known = load_known_findings()
    known_keys = {k for (p, k) in known if p == check.ID}
    ctx = multiprocessing.get_context('fork')
    agg = {'runs': 0, 'stats': collections.Counter(), 'nontrivial': set(), 'sim_time': 0.0,
           'abandoned': collections.Counter(), 'known': {}, 'samples': []}
    violations = []
    harness = None
    next_start = 0
    deadline = t0 + budget_s
    NT_CAP = 1500000
    with ProcessPoolExecutor(max_workers=workers, mp_context=ctx) as pool:
        pending = set()

        def submit():
            nonlocal next_start
            if max_runs is not None and next_start >= max_runs:
                return False
            cnt = block if max_runs is None else min(block, max_runs - next_start)
            pending.add(pool.submit(_worker_block, (check_name, tier, batch_seed, next_start, cnt,
                                                    known_keys, budget_s)))
            next_start += cnt
            return True

        for _ in range(workers * 2):
            submit()
        stop = False
        while pending:
            done, _ = wait(pending, return_when=FIRST_COMPLETED)
            for f in done:
                pending.discard(f)
                out = f.result()   # BrokenProcessPool propagates -> harness error
                agg['runs'] += out['runs']
                agg['stats'].update(out['stats'])
                if len(agg['nontrivial']) < NT_CAP:
                    agg['nontrivial'].update(out['nontrivial'])
                agg['sim_time'] += out['sim_time']
                agg['abandoned'].update(out['abandoned'])
                for k, v in out['known'].items():
                    cur = agg['known'].get(k)
                    if cur is None:
                        agg['known'][k] = v
                    else:
                        cur['count'] += v['count']
                        if v['first_run'] < cur['first_run']:
                            cur.update(first_run=v['first_run'], seed=v['seed'], msg=v['msg'])
                if out['sample'] is not None and len(agg['samples']) < 3:
                    agg['samples'].append(out['sample'])
                if out['violation'] is not None:
                    violations.append(out['violation'])
                    stop = True
                if out['harness'] is not None and harness is None:
                    harness = out['harness']
                    stop = True
                if not stop and time.time() < deadline:
                    submit()
    agg['wall_explore'] = time.time() - t0
    return check, agg, violations, harness, batch_seed


def write_replay(check, tier, v, batch_seed):
    path = os.path.join(VERIF, 'replays', '%s-%d.json' % (check.ID, v['seed']))
    os.makedirs(os.path.dirname(path), exist_ok=True)
    doc = {'property': check.ID, 'check': check.ID.lower(), 'tier': tier, 'seed': v['seed'],
           'batch_seed': batch_seed, 'run_index': v['run'], 'tree_digest': tree_digest(),
           'choices': v['record'], 'violation': {'cls': v['violation']['cls'], 'msg': v['violation']['msg']},
           'explained': v['violation'].get('explained'), 'shrink': v.get('shrink'), 'custom': v.get('custom')}
    with open(path, 'w') as f:
        json.dump(doc, f, indent=1, default=repr)
    return path


def write_evidence(check, tier, agg, batch_seed, n_violations, wall):
    samples = agg['samples'] or [{'note': 'no non-trivial sample recorded'}]
    runs = max(agg['runs'], 0)
    cov = {
        'evaluations': runs,
        'distinct_nontrivial': len(agg['nontrivial']),
        'rule': check.RULE,
        'samples': samples,
        'runs': runs,
        'runs_per_hour': int(runs / max(agg['wall_explore'], 1e-6) * 3600),
        'simulated_time_total': agg['sim_time'],
        'reach_probes_and_faults': dict(sorted(agg['stats'].items())),
        'abandoned_other_property': dict(agg['abandoned']),
        'known_findings_seen': {k: v['count'] for k, v in sorted(agg['known'].items())},
        'components': check.COMPONENTS,
        'workers': int(os.environ.get('VERIF_WORKERS', '16')),
        'tree_digest': tree_digest(),
    }
    if hasattr(check, 'coverage_extra'):
        cov.update(check.coverage_extra(agg))
    doc = {'property_id': check.ID, 'tier': tier, 'seed': batch_seed, 'level': check.LEVEL,
           'coverage': cov, 'assumptions': check.ASSUMPTIONS, 'wall_s': round(wall, 2),
           'violations': n_violations}
    os.makedirs(os.path.join(VERIF, 'evidence'), exist_ok=True)
    path = os.path.join(VERIF, 'evidence', check.ID + '.json')
    tmp = path + '.tmp'
    with open(tmp, 'w') as f:
        json.dump(doc, f, indent=1, default=repr)
    os.replace(tmp, path)
    return path


def cmd_check(check_name, tier, max_runs=None):
    t0 = time.time()
    print('CHECK %s tier=%s VERIF_SEED=%s tree=%s' % (check_name.upper(), tier,
                                                      os.environ.get('VERIF_SEED', '20260926'), tree_digest()))
    sys.stdout.flush()
    try:
        check, agg, violations, harness, batch_seed = run_batch(check_name, tier, max_runs=max_runs)
    except Exception:
        print('HARNESS-ERROR: %s' % traceback.format_exc())
        return 2
    if harness is not None:
        print('HARNESS-ERROR run=%s seed=%s\n%s' % (harness['run'], harness['seed'], harness['trace']))
        return 2
    if not violations and hasattr(check, 'post_batch'):
        try:
            st, v = check.post_batch(tier, batch_seed, agg)
        except Exception:
            print('HARNESS-ERROR: %s' % traceback.format_exc())
            return 2
        agg['stats'].update(st)
        if v is not None:
            violations.append(v)
    known = load_known_findings()
    for k, v in sorted(agg['known'].items()):
        print('KNOWN-FINDING: property=%s key=%s seen=%d first_seed=%d %s' % (
            check.ID, k, v['count'], v['seed'], known.get((check.ID, k), '')))
    rc = 0
    nv = 0
    if violations:
        v = min(violations, key=lambda x: x['run'])
        nv = len(violations)
        budget = 10 if tier == 'quick' else 60
        budget = float(os.environ.get('VERIF_SHRINK_S', budget))
        before = sum(len(x) for x in v['record'].values())
        if v.get('custom') is None:
            rec, res, attempts = shrink(check, tier, v['record'], v['violation']['cls'], budget,
                                        getattr(check, 'STREAM_ORDER', None))
            if res is not None:
                v['record'] = rec
                v['violation'] = res.violation
            v['shrink'] = {'choices_before': before, 'choices_after': sum(len(x) for x in v['record'].values()),
                           'attempts': attempts}
        path = write_replay(check, tier, v, batch_seed)
        print('violation class=%s seed=%d run=%d: %s' % (v['violation']['cls'], v['seed'], v['run'],
                                                         v['violation']['msg']))
        print('VIOLATION property=%s replay=%s' % (check.ID, path))
        rc = 1
    wall = time.time() - t0
    write_evidence(check, tier, agg, batch_seed, nv, wall)
    print('%s: runs=%d distinct_nontrivial=%d abandoned=%s wall=%.1fs rc=%d' % (
        check.ID, agg['runs'], len(agg['nontrivial']), dict(agg['abandoned']), wall, rc))
    nab = sum(agg['abandoned'].values())
    if agg['runs'] and nab * 5 > agg['runs'] and check.ID != 'C19':
        # informational only (never changes the exit status): runs set aside as "somebody else's business" explore nothing; on
        # the unchanged tree this stays far below the threshold for every check but C19 (whose generator rejects scenarios)
        print('NOTE: %d of %d runs of %s were abandoned %s - what they would have shown is for the named owners to tell; run those checks too' % (
            nab, agg['runs'], check.ID, dict(agg['abandoned'])))
    return rc


def cmd_replay(path):
    doc = json.load(open(path))
    check = load_check(doc['check'])
    if doc.get('custom'):
        if check.replay_custom(doc):
            print('REPRODUCED-EXACTLY')
            print('VIOLATION property=%s replay=%s' % (doc['property'], path))
            return 1
        print('NOT REPRODUCED')
        return 0
    res, used = run_one(check, doc.get('tier', 'quick'), record=doc['choices'])
    if res.violation is None:
        print('NOT REPRODUCED (no violation) tree=%s recorded_tree=%s' % (tree_digest(), doc.get('tree_digest')))
        return 0
    same = (res.violation['cls'] == doc['violation']['cls'] and res.violation['msg'] == doc['violation']['msg'])
    print('replayed: class=%s msg=%s' % (res.violation['cls'], res.violation['msg']))
    print(json.dumps(res.violation.get('explained'), indent=1, default=repr))
    print('REPRODUCED-EXACTLY' if same else 'REPRODUCED-DIFFERENT-MESSAGE (recorded: %s)' % doc['violation']['msg'])
    if hasattr(check, 'classify'):
        try:
            key = check.classify(res, doc['choices'], doc.get('tier', 'quick'))
        except Exception:
            key = None
        if key and (doc['property'], key) in load_known_findings():
            print('NOTE: on this tree the record is an instance of known finding %s of %s' % (key, doc['property']))
    print('VIOLATION property=%s replay=%s' % (doc['property'], path))
    return 1

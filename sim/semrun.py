"""Shared driver of the semantic checks: a generated chart on a real Interpreter with a simulator-owned
clock, probes and guard outcomes; the reference model in lock-step, resynchronised to the real
interpreter's observable state after every step (DESIGN.md 3.3)."""
from fractions import Fraction as F

from sim import ref
from sim.chart import gen_spec, build_api, build_via_edits, tid, HIST
from sim.engine import Abandon
from sim.probes import Probe, SimClock

from sismic.interpreter import Interpreter
from sismic.model import Event, InternalEvent, MetaEvent
from sismic import exceptions as sx

TICK = F(1, 64)


def materialise(sp, ch, res=None):
    """statechart object for `sp`: usually straight through the API, in a quarter of the runs by the
    detour of build_via_edits (attach elsewhere / temporary names, execute and query, then move / rename)"""
    st = ch.s('mat')
    how = st.choice(12)      # 0: plain API; 1-3: editing-API detour; 4: YAML document (slow: schema validation); else API
    if how in (1, 2, 3):
        sc, nm, na = build_via_edits(sp, st)
        if res is not None:
            res.stats['charts_materialised_through_move_and_rename'] += 1
            res.stats['states_moved_or_renamed_before_the_run'] += nm + na
        return sc
    if how == 4:
        from sim.chart import build_yaml
        if res is not None:
            res.stats['charts_materialised_through_a_yaml_document'] += 1
        return build_yaml(sp, st)
    return None


class StepRec:
    __slots__ = ('k', 'init', 'pre', 'post', 'T', 'truth', 'ms', 'exc', 'log', 'sel', 'head', 'mem_before',
                 'ctx_before', 'ctx_after', 'qlen_before', 'entry_before', 'idle_before', 'consumed_uid',
                 'consumed_head', 'sent', 'consumed_key', 'head_internal')

    def fired_ids(self):
        return [tid(t) for t in self.ms.transitions] if self.ms is not None else []

    def exc_name(self):
        return type(self.exc).__name__ if self.exc is not None else None


def event_uid(e):
    # whatever the step claims to have consumed: something that is not an Event has no uid and is nobody's event
    return getattr(e, 'data', {}).get('uid') if e is not None else None


class Sim:
    def __init__(self, sp, *, clock=None, statechart=None, ignore_contract=True, probe=None,
                 interpreter_klass=Interpreter):
        self.sp = sp
        self.sc = statechart if statechart is not None else build_api(sp)
        self.P = probe if probe is not None else Probe()
        self.clock = clock if clock is not None else SimClock()
        # the time of "the last step" before any step is the clock value sampled when the interpreter is
        # built: taken from the simulator's clock, never from the interpreter under test
        t0 = F(self.clock.peek_next())
        self.it = interpreter_klass(self.sc, clock=self.clock, initial_context={'P': self.P},
                                    ignore_contract=ignore_contract)
        self.mem = {}
        self.q = ref.QueueModel()
        self.next_uid = 0
        self.entry = {}
        self.idle = {}
        self.lastT = t0
        self.started = False
        self.k = 0
        self.all_uids = {}     # uid -> dict(name, due, internal, consumed_at)

    # ---- environment operations
    def queue(self, name, delay=None, as_meta=False):
        self.next_uid += 1
        uid = self.next_uid
        if as_meta:
            # a MetaEvent instance handed to queue() (what `source.attach(monitor.queue)` does) is an external event
            ev_ = MetaEvent(name, uid=uid) if delay is None else MetaEvent(name, uid=uid, delay=delay)
            self.it.queue(ev_)
            due = self.lastT if delay is None else self.lastT + F(delay)
            self.expect_external(uid, name, due)
            return uid
        # both documented calling conventions: an Event instance, or a name with keyword parameters
        by_name = uid % 2 == 0
        if delay is None:
            if by_name:
                self.it.queue(name, uid=uid)
            else:
                self.it.queue(Event(name, uid=uid))
            due = self.lastT
        else:
            if by_name:
                self.it.queue(name, uid=uid, delay=delay)
            else:
                self.it.queue(Event(name, uid=uid, delay=delay))
            due = self.lastT + F(delay)
        self.expect_external(uid, name, due)
        return uid

    def queue_anon(self, name, delay=None):
        """an external event without any distinguishing parameter (two of them, or one and an internal event of that name and
        delay, compare equal)"""
        if delay is None:
            self.it.queue(name)
            due = self.lastT
        else:
            self.it.queue(name, delay=delay)
            due = self.lastT + F(delay)
        self.expect_external(None, name, due)

    def queue_pair(self, n1, d1, n2, d2, first_is_instance):
        """one call with two events, one given as an Event instance and one by name: the keyword parameters belong to the
        one given by name only"""
        self.next_uid += 2
        u1, u2 = self.next_uid - 1, self.next_uid

        def inst(n, u, d):
            return Event(n, uid=u) if d is None else Event(n, uid=u, delay=d)

        def kw(u, d):
            return dict(uid=u) if d is None else dict(uid=u, delay=d)
        if first_is_instance:
            self.it.queue(inst(n1, u1, d1), n2, **kw(u2, d2))
        else:
            self.it.queue(n1, inst(n2, u2, d2), **kw(u1, d1))
        self.expect_external(u1, n1, self.lastT + F(d1 or 0))
        self.expect_external(u2, n2, self.lastT + F(d2 or 0))
        return u1, u2

    def expect_external(self, uid, name, due):
        """the model learns that an external event was put in this interpreter's queue"""
        self.q.put(False, due, uid, name)
        if uid is not None:
            self.all_uids[(uid, False)] = {'name': name, 'due': due, 'internal': False, 'consumed_at': None,
                                           'queued_at_step': self.k}

    def advance(self, d):
        self.clock.advance(float(d))

    def now(self):
        return F(self.clock.peek_next())

    def draw_truth(self, st, num=5, den=8):
        """truth value for every guarded transition whose source is active"""
        conf = set(self.it.configuration)
        truth = {}
        for t in self.sp.trans:
            if t.guard and t.src in conf:
                # an exact duplicate shares the code, hence the guard outcome, of the transition it duplicates
                truth[t.i] = truth[t.ci] if t.ci != t.i else st.flag(num, den)
        return truth

    # ---- one step
    def step(self, truth, via_execute=False):
        """one macro step through execute_once(), or through execute(max_steps=1), which is documented to be the same thing"""
        sp, it, P = self.sp, self.it, self.P
        r = StepRec()
        r.k = self.k
        self.k += 1
        r.init = not self.started
        r.pre = set(it.configuration)
        r.T = self.now()
        r.truth = dict(truth)
        r.mem_before = {k: list(v) for k, v in self.mem.items()}
        r.entry_before = dict(self.entry)
        r.idle_before = dict(self.idle)
        r.ctx_before = it.context.get('v')
        r.qlen_before = self.q.pending()
        hq, h = self.q.head(r.T)
        r.head = h
        r.head_internal = hq is self.q.internal
        r.consumed_key = None
        r.sel = None if r.init else ref.select(sp, r.pre, h[3] if h else None, truth)
        P.truth = dict(truth)
        mark = len(P.log)
        self.lastT = r.T        # whoever queues something while the step runs (a listener) does so at the step time
        try:
            if via_execute:
                out_ = it.execute(max_steps=1)
                r.ms = out_[0] if out_ else None
                if len(out_) > 1:
                    raise AssertionError('execute(max_steps=1) returned %d macro steps' % len(out_))
            else:
                r.ms = it.execute_once()
            r.exc = None
        except Exception as e:      # outcome of the run, judged by the checks
            r.ms = None
            r.exc = e
        self.started = True
        r.log = P.log[mark:]
        r.post = set(it.configuration)
        r.ctx_after = it.context.get('v')
        self.lastT = F(it.time)
        r.consumed_uid = None
        r.consumed_head = True
        r.sent = []
        # ---- resynchronise the model with what really happened
        if r.ms is not None:
            conf = set(r.pre)
            T = r.T
            for m in r.ms.steps:
                ref.record_memory(sp, conf, [x for x in m.exited_states if x in sp.states], self.mem)
                conf.difference_update(m.exited_states)
                if m.transition is not None:
                    self.idle[m.transition.source] = T
                for s in m.entered_states:
                    conf.add(s)
                    self.entry[s] = T
                    self.idle[s] = T
                for e in m.sent_events:
                    if isinstance(e, InternalEvent):
                        uid = event_uid(e)
                        d = e.data.get('delay')
                        due = F(it.time) + (F(d) if d is not None else 0)
                        self.q.put(True, due, uid, e.name)
                        if uid is not None:
                            self.all_uids[(uid, True)] = {'name': e.name, 'due': due, 'internal': True,
                                                          'consumed_at': None, 'queued_at_step': r.k}
                        r.sent.append((uid, e.name, d))
            e = r.ms.event
            if e is not None:
                uid = event_uid(e)
                internal = isinstance(e, InternalEvent)
                r.consumed_uid = uid
                r.consumed_key = (uid, internal)
                ename = getattr(e, 'name', e)
                r.consumed_head = (h is not None and h[2] == uid and (hq is self.q.internal) == internal
                                   and (uid is not None or h[3] == ename))
                q = self.q.internal if internal else self.q.external
                for item in list(q):
                    if item[2] == uid and (uid is not None or item[3] == ename):
                        q.remove(item)
                        break
                if (uid, internal) in self.all_uids:
                    info = self.all_uids[(uid, internal)]
                    info['consumed_at'] = (r.k, r.T) if info['consumed_at'] is None else 'twice'
        return r


def legal_or_abandon(sp, conf, who):
    why = ref.legal(sp, conf)
    if why:
        raise Abandon('C02: illegal configuration (%s) met in a %s run' % (why.split(' ')[0], who))


EXPECTED_EXC = (sx.NonDeterminismError, sx.ConflictingTransitionsError)


def standard_ops(sim, ch, tier, *, single_pending=False, delays=False, lo=5, hi=None, events=None,
                 p_true=(5, 8), advance=True):
    """Generator of steps: yields StepRec after every execute_once; between steps it queues events and
    moves the clock as the 'ops' stream says."""
    ops = ch.s('ops')
    gs = ch.s('guards')
    hi = hi or (30 if tier == 'quick' else 80)
    n = ops.int(lo, hi)
    names = sorted({t.event for t in sim.sp.trans if t.event}) or ['ea']
    names = (events or names) + ['zz']
    script = sim.script = []

    def do_step():
        truth = sim.draw_truth(gs, *p_true)
        via = len(script) > 0 and ops.flag(1, 6)        # now and then through execute(max_steps=1) instead of execute_once()
        script.append(('step', truth, via))
        return sim.step(truth, via_execute=via)
    yield do_step()
    for _ in range(n):
        kinds = [('step', 5), ('queue', 4)]
        if advance:
            kinds.append(('advance', 2))
        op = ops.weighted(kinds)
        if op == 'queue' and single_pending and sim.q.pending():
            op = 'step'
        if op == 'queue':
            d = None
            if delays:
                d = ops.pick([None, None, 0, 1, 2, 2, 5])
            live = sorted({t.event for t in sim.sp.trans if t.event and t.src in set(sim.it.configuration)})
            name = ops.pick(live) if live and ops.flag(3, 4) else ops.pick(names)
            script.append(('queue', name, d))
            sim.queue(name, d)
        elif op == 'advance':
            d = ops.pick([F(1), F(0), TICK, F(2), F(5), F(1) - TICK, F(100)])
            script.append(('advance', d))
            sim.advance(d)
        else:
            yield do_step()


def replay_script(sim, script):
    """Re-execute a recorded operation script on another Sim (twin runs); yields the StepRecs."""
    for op in script:
        if op[0] == 'queue':
            sim.queue(op[1], op[2])
        elif op[0] == 'advance':
            sim.advance(op[1])
        else:
            yield sim.step(op[1], via_execute=len(op) > 2 and op[2])


# ----------------------------------------------------------------------------- micro-step groups

class Group:
    __slots__ = ('t', 'micros', 'conf_before', 'conf_after', 'exited', 'entered', 'exp_exited', 'exp_entered',
                 'exp_conf', 'stab_exited')


def groups(sp, r, mem_before):
    """Split the micro steps of a returned macro step into one group per processed transition (the
    transition's own micro step + the stabilisation steps that follow) and compute, for each group,
    what the reference model expects from the configuration the group really started in."""
    out = []
    conf = set(r.pre)
    mem = {k: list(v) for k, v in mem_before.items()}
    cur = None
    for m in r.ms.steps:
        if m.transition is not None or cur is None:
            cur = Group()
            cur.t = sp.trans[tid(m.transition)] if m.transition is not None else None
            cur.micros = []
            cur.conf_before = set(conf)
            cur.exited = []
            cur.entered = []
            cur.stab_exited = []
            out.append(cur)
        cur.micros.append(m)
        if m.transition is not None or not cur.micros[:-1] and cur.t is None and False:
            pass
        (cur.exited if m.transition is not None else cur.stab_exited).extend(m.exited_states)
        cur.entered.extend(m.entered_states)
        conf.difference_update(m.exited_states)
        conf.update(m.entered_states)
        cur.conf_after = set(conf)
    # expectations (each from the configuration the group really started in; memory follows the real exits)
    for g in out:
        c = set(g.conf_before)
        if g.t is None:
            if r.init:
                g.exp_conf, g.exp_entered = ref.initial_conf(sp, mem)
                g.exp_exited = set()
            else:       # event consumed by a transition-less step
                g.exp_conf, g.exp_entered, g.exp_exited = c, [], set()
        else:
            g.exp_exited, g.exp_entered = ref.apply(sp, c, mem, g.t)
            g.exp_conf = c
        # memory for the next group follows what really happened
        mem2 = mem
        cc = set(g.conf_before)
        for m in g.micros:
            ref.record_memory(sp, cc, [x for x in m.exited_states if x in sp.states], mem2)
            cc.difference_update(m.exited_states)
            cc.update(m.entered_states)
    return out

"""Abstract statecharts (ChartSpec), the generator of well-formed charts (DESIGN.md section 2) and the
materialisers (API calls in a chosen order, YAML document in a chosen order).

A spec shares no code with sismic.model: it is plain data on which the reference model works.
"""
import re

NAME_POOL = [a + b for a in 'kqzmbxtdhgrwcfjlnpsv' for b in 'aeiou']
# names of one to three characters that are prefixes / substrings of each other ('k', 'ka', 'kak', 'ak', ...): state names are
# arbitrary strings, nothing may depend on their length or on one containing another
NESTED_POOL = list('akbdg') + [a + b for a in 'akbdg' for b in 'akbdg'] + [a + b + c for a in 'ak' for b in 'ak' for c in 'akb']
EVENTS = ['ea', 'eb', 'ec', 'ed']

HIST = ('shallow', 'deep')
COMPOSITE = ('compound', 'orthogonal')
SOURCES = ('basic', 'compound', 'orthogonal')


class St:
    __slots__ = ('name', 'kind', 'parent', 'children', 'initial', 'memory', 'entry_sends', 'exit_sends',
                 'pre', 'post', 'inv', 'bump_entry', 'bump_exit', 'tobs', 'tinv', 'echo', 'tpost')

    def __init__(self, name, kind, parent):
        self.name = name
        self.kind = kind
        self.parent = parent
        self.children = []
        self.initial = None
        self.memory = None
        self.entry_sends = []   # list of (kind 'send'|'notify', name, delay or None)
        self.exit_sends = []
        self.pre = []           # contract condition ids
        self.post = []
        self.inv = []
        self.bump_entry = False  # entry code modifies context variable v
        self.bump_exit = False
        self.tobs = False       # code logs the `time` variable it sees
        self.tinv = []          # time-aware invariants: (cond id, after arg or None, idle arg or None)
        self.tpost = []         # time-aware postconditions: (cond id, after arg), set by C13 only
        self.echo = None        # ('entry'|'exit', i): that code is exactly the text of the event-free guard of transition i

    def as_tuple(self):
        return (self.name, self.kind, self.parent, tuple(self.children), self.initial, self.memory,
                tuple(self.entry_sends), tuple(self.exit_sends), tuple(self.pre), tuple(self.post),
                tuple(self.inv), self.bump_entry, self.bump_exit, self.tobs, tuple(self.tinv), self.echo) + ((tuple(self.tpost),) if self.tpost else ())


class Tr:
    __slots__ = ('i', 'src', 'tgt', 'event', 'prio', 'guard', 'sends', 'pre', 'post', 'inv', 'bump',
                 'tg_after', 'tg_idle', 'tobs', 'gform', 'tinv_idle', 'noact', 'ci', 'tpost_after')

    def __init__(self, i, src, tgt, event, prio, guard):
        self.i = i
        self.ci = i             # index written into the generated code; differs from i only for an exact duplicate (C04)
        self.src = src
        self.tgt = tgt
        self.event = event
        self.prio = prio
        self.guard = guard       # bool: has a probe guard
        self.sends = []
        self.pre = []
        self.post = []
        self.inv = []
        self.bump = False
        self.tg_after = None     # time-aware guard: after(d) argument or None
        self.tg_idle = None
        self.tobs = False
        self.gform = False      # guard written in the event-free form P.g(i)
        self.tinv_idle = None   # argument of idle() in a transition invariant (set by C13 only)
        self.tpost_after = None  # argument of after() in a transition postcondition (set by C13 only)
        self.noact = False      # the transition has no action at all (C08 only; it is then identified by its guard)

    def as_tuple(self):
        return (self.i, self.src, self.tgt, self.event, self.prio, self.guard, tuple(self.sends),
                tuple(self.pre), tuple(self.post), tuple(self.inv), self.bump, self.tg_after, self.tg_idle, self.tobs, self.gform) + \
            ((self.tinv_idle,) if self.tinv_idle is not None else ()) + (('noact',) if self.noact else ()) + \
            ((('tpost_after', self.tpost_after),) if self.tpost_after is not None else ()) + \
            ((('dup', self.ci),) if self.ci != self.i else ())


class Spec:
    def __init__(self):
        self.states = {}     # name -> St, in creation order
        self.root = None
        self.trans = []      # list of Tr
        self.nconds = 0
        self._anc = {}
        self._desc = {}

    # ---- structure helpers (independent re-implementation, on plain data)
    def add(self, name, kind, parent):
        s = St(name, kind, parent)
        self.states[name] = s
        if parent is None:
            self.root = name
        else:
            self.states[parent].children.append(name)
        self._anc.clear()
        self._desc.clear()
        return s

    def anc(self, n):
        """proper ancestors, nearest first"""
        r = self._anc.get(n)
        if r is None:
            r = []
            p = self.states[n].parent
            while p is not None:
                r.append(p)
                p = self.states[p].parent
            self._anc[n] = r
        return r

    def depth(self, n):
        return len(self.anc(n)) + 1

    def desc(self, n):
        """proper descendants"""
        r = self._desc.get(n)
        if r is None:
            r = []
            stack = [n]
            while stack:
                x = stack.pop()
                for c in self.states[x].children:
                    r.append(c)
                    stack.append(c)
            self._desc[n] = r
        return r

    def kind(self, n):
        return self.states[n].kind

    def canon(self, names):
        return sorted(names, key=lambda x: (self.depth(x), x))

    def lca(self, a, b):
        """deepest proper common ancestor of a and b, or None (virtual super-root)"""
        ab = self.anc(b)
        for x in self.anc(a):
            if x in ab:
                return x
        return None

    def child_towards(self, anc_or_none, n):
        """the child of `anc_or_none` (None = super-root) that contains n (or is n)"""
        chain = [n] + self.anc(n)
        if anc_or_none is None:
            return chain[-1]
        return chain[chain.index(anc_or_none) - 1]

    def fingerprint(self):
        return (tuple(s.as_tuple() for s in self.states.values()), tuple(t.as_tuple() for t in self.trans))

    def describe(self):
        def st(n, ind):
            s = self.states[n]
            extra = ''
            if s.initial:
                extra += ' initial=%s' % s.initial
            if s.memory:
                extra += ' memory=%s' % s.memory
            out = ['%s%s [%s]%s' % ('  ' * ind, n, s.kind, extra)]
            for c in s.children:
                out += st(c, ind + 1)
            return out
        lines = st(self.root, 0)
        for t in self.trans:
            lines.append('t%d: %s -> %s on %s prio=%d%s%s' % (
                t.i, t.src, t.tgt, t.event, t.prio, ' [guard]' if t.guard else '',
                ' sends=%s' % t.sends if t.sends else ''))
        return lines


# ----------------------------------------------------------------------------- configuration (swarm)

class Cfg:
    """Per-run feature switches and size knobs.  Checks force some, the rest is drawn per run."""

    def __init__(self, **kw):
        self.max_states = 10
        self.max_depth = 4
        self.max_trans = 14
        self.orthogonal = True
        self.history = True
        self.final = True
        self.internal = True
        self.eventless = True
        self.priorities = True
        self.guards = True
        self.sends = False        # code sends events
        self.notify = False
        self.delays = False       # sends/queues use delays
        self.contracts = False
        self.bump = False         # code modifies context variable v
        self.time_guards = False
        self.time_obs = False     # code logs `time`; states carry time-aware invariants
        self.anon = False         # code also sends events without any distinguishing parameter (equal by value)
        self.echo = False         # some guards use the event-free form and their text doubles as entry/exit code of a state
        self.noact = False        # some guarded transitions have no action (their contracts are checked all the same)
        self.payload = False      # some sent events carry the context's list w itself as a parameter
        self.neg_delays = False   # sends also use negative delays
        self.nested_names = False  # names from NESTED_POOL (drawn by swarm in one run out of six)
        self.dupconds = False     # now and then a contract list holds the very same condition text twice (C08)
        self.sentconds = False    # a third of the contract conditions also log sent('na'), sent('ea'), received('ea')
        self.brace = False        # some guard texts contain braces (they end up in error messages and exports)
        self.force_history = False
        self.pair_bias = 0        # out of 8: probability that a new transition copies source/event of an earlier one
        self.root_orthogonal = True
        self.nested_targets = True
        for k, v in kw.items():
            assert hasattr(self, k), k
            setattr(self, k, v)


def swarm(st, cfg, tier):
    """Randomise the switches a check did not pin (value None = draw)."""
    big = tier == 'thorough'
    cfg.max_states = st.pick([10, 4, 6, 8, 10, 12 if not big else 16])
    cfg.max_depth = st.pick([4, 2, 3, 4, 4 if not big else 6])
    cfg.max_trans = st.pick([14, 3, 6, 10, 14, 14 if not big else 24])
    for name in ('orthogonal', 'history', 'final', 'internal', 'eventless', 'priorities'):
        if getattr(cfg, name) is True:
            setattr(cfg, name, st.choice(8) != 1)     # mostly on, sometimes off
    cfg.nested_names = st.choice(6) == 1
    return cfg


# ----------------------------------------------------------------------------- generator

def gen_spec(st, cfg):
    """Draw one well-formed chart (W1-W8) from stream `st`."""
    sp = Spec()
    pool = list(NESTED_POOL if cfg.nested_names else NAME_POOL)

    def fresh():
        if not pool:        # very large charts: fall back to generated names (still unique, still 2+ letters)
            extra[0] += 1
            return 'y%02d' % extra[0]
        return pool.pop(st.choice(len(pool)))
    extra = [0]

    budget = [st.int(2, max(2, cfg.max_states)) - 1]
    gadget_moves = []

    def grow(n, depth):
        s = sp.states[n]
        if s.kind == 'compound':
            nkids = st.int(2 if cfg.force_history else 1, 3)
            for _ in range(nkids):
                if budget[0] <= 0 and s.children:
                    break
                budget[0] -= 1
                kinds = [('basic', 4)]
                if depth < cfg.max_depth:
                    kinds.append(('compound', 2))
                    if cfg.orthogonal:
                        kinds.append(('orthogonal', 2))
                if cfg.final:
                    kinds.append(('final', 1))
                c = sp.add(fresh(), st.weighted(kinds), n)
                grow(c.name, depth + 1)
            if cfg.force_history and cfg.orthogonal and depth + 2 <= max(cfg.max_depth, 4) and st.flag(1, 5):
                # gadget: orthogonal content with several two-state regions below a history parent, so that a
                # remembered sub-configuration holds many states of equal depth
                o = sp.add(fresh(), 'orthogonal', n)
                for _ in range(st.int(2, 3)):
                    reg = sp.add(fresh(), 'compound', o.name)
                    k1 = sp.add(fresh(), 'basic', reg.name)
                    k2 = sp.add(fresh(), 'basic', reg.name)
                    reg.initial = k1.name
                    gadget_moves.append((k1.name, k2.name))
            nonhist = list(s.children)
            s.initial = st.pick(nonhist)
            if cfg.history and (cfg.force_history or st.flag(3, 8)):
                hk = st.pick(['shallow', 'deep'])
                h = sp.add(fresh(), hk, n)
                h.memory = st.pick(nonhist)
                if cfg.force_history and st.flag(1, 4):
                    # a compound state may own a shallow and a deep history state at the same time
                    h2 = sp.add(fresh(), 'deep' if hk == 'shallow' else 'shallow', n)
                    h2.memory = st.pick(nonhist)
        elif s.kind == 'orthogonal':
            for _ in range(st.int(1, 3)):
                budget[0] -= 1
                kinds = [('basic', 2)]
                if depth < cfg.max_depth:
                    kinds.append(('compound', 4))
                    kinds.append(('orthogonal', 1))
                c = sp.add(fresh(), st.weighted(kinds), n)
                grow(c.name, depth + 1)

    rk = [('compound', 3)]
    if cfg.orthogonal and cfg.root_orthogonal:
        rk.append(('orthogonal', 1))
    root = sp.add(fresh(), st.weighted(rk), None)
    grow(root.name, 1)
    if cfg.force_history and not any(s.kind in HIST for s in sp.states.values()):
        # make sure at least one history state exists: put one under the first compound state
        for s in list(sp.states.values()):
            if s.kind == 'compound':
                h = sp.add(fresh(), st.pick(['shallow', 'deep']), s.name)
                h.memory = st.pick([c for c in s.children if sp.kind(c) not in HIST])
                break

    names = list(sp.states)
    srcs = [n for n in names if sp.kind(n) in SOURCES]
    events = EVENTS[:st.int(1, len(EVENTS))]
    ntr = st.int(1, max(1, cfg.max_trans))
    hist_names = [n for n in names if sp.kind(n) in HIST]
    for _ in range(ntr):
        copied = None
        if sp.trans and cfg.pair_bias and st.choice(8) < cfg.pair_bias:
            copied = st.pick(sp.trans)
            s = copied.src
        else:
            s = st.pick(srcs)
        if cfg.internal and st.flag(1, 6):
            t = None
        elif hist_names and cfg.force_history and st.flag(1, 3):
            t = st.pick(hist_names)
        else:
            t = st.pick(names)
        if copied is not None and st.flag(3, 4):
            ev = copied.event
        else:
            ev = st.pick(events + ([None] if cfg.eventless else []))
        guard = cfg.guards and st.flag(5, 8)
        if t is None and ev is None:
            guard = True      # W7: an internal transition has an event or a guard
        if ev is None and not cfg.guards:
            ev = events[0]
        if t is not None and not legal_transition(sp, s, t):
            continue
        prio = st.pick([0, 0, 0, 1, -1, 2, -2]) if cfg.priorities else 0
        tr = Tr(len(sp.trans), s, t, ev, prio, guard)
        sp.trans.append(tr)
    for a, b in gadget_moves:
        sp.trans.append(Tr(len(sp.trans), a, b, st.pick(events), 0, False))
    if cfg.force_history:
        # gadgets: moves inside the history parent, a way out and a way back in through the history state
        for h in hist_names:
            if not st.flag(3, 4):
                continue
            p = sp.states[h].parent
            kids = [c for c in sp.states[p].children if sp.kind(c) in SOURCES]
            allkids = [c for c in sp.states[p].children if sp.kind(c) not in HIST]
            outside = [n for n in names if n != p and n not in sp.desc(p) and p not in sp.anc(n) or n in sp.anc(p)]
            outside = [n for n in names if n != p and n not in sp.desc(p)]

            def add(s, t):
                if s is not None and t is not None and legal_transition(sp, s, t):
                    sp.trans.append(Tr(len(sp.trans), s, t, st.pick(events), 0, st.flag(1, 4)))
            if kids and len(allkids) >= 2:
                a = st.pick(kids)
                add(a, st.pick([c for c in allkids if c != a]))
            out_t = st.pick(outside) if outside else None
            add(st.pick([p] + kids) if kids else p, out_t)
            srcs_out = [n for n in outside if sp.kind(n) in SOURCES]
            if srcs_out:
                add(st.pick(srcs_out), h)
            # nested history: when the parent of p remembers too, a sibling of p leads straight to h - what p remembered must
            # survive a round trip through the outer history state
            pp = sp.states[p].parent
            if pp is not None and any(sp.kind(c) in HIST for c in sp.states[pp].children):
                sibs = [c for c in sp.states[pp].children if c != p and sp.kind(c) in SOURCES]
                if sibs and st.flag(1, 2):
                    add(st.pick(sibs), h)
    decorate(sp, st, cfg, events)
    return sp


def legal_transition(sp, s, t):
    """W6 + W7 for a transition s -> t with a target"""
    if sp.kind(t) in HIST:
        p = sp.states[t].parent
        if s == p or p in sp.anc(s):
            return False
    d = sp.lca(s, t)
    if d is not None and sp.kind(d) == 'orthogonal':
        if sp.child_towards(d, s) != sp.child_towards(d, t):
            return False
    return True


EXT = 5000      # contract conditions with an id >= EXT use the extended form (sent / received predicates)


def decorate(sp, st, cfg, events):
    """sends / notify / context updates / contracts / time-aware guards"""
    delays = [None, None, 0, 1, 2, 2, 5] if cfg.delays else [None]
    if cfg.delays and cfg.neg_delays:
        delays = delays + [-1, -4]       # legal: the event is due since before it was sent

    def some_sends():
        out = []
        if cfg.sends and st.flag(1, 3):
            for _ in range(st.int(1, 2)):
                out.append(('sendw' if cfg.payload and st.flag(1, 2) else 'send', st.pick(events + ['ez']), st.pick(delays)))
        if cfg.notify and st.flag(1, 5):
            out.insert(st.choice(len(out) + 1), ('notify', st.pick(['na', 'nb']), None))
        if cfg.anon and st.flag(1, 3):
            out.append(('anon', st.pick(events), st.pick([None, 1, 2])))
        return out

    if cfg.sends or cfg.notify:
        for s in sp.states.values():
            if st.flag(1, 3):
                s.entry_sends = some_sends()
            if st.flag(1, 4):
                s.exit_sends = some_sends()
        for t in sp.trans:
            t.sends = some_sends()
    if cfg.bump:
        for s in sp.states.values():
            s.bump_entry = st.flag(1, 3)
            s.bump_exit = st.flag(1, 4)
        for t in sp.trans:
            t.bump = st.flag(1, 2)
    if cfg.time_guards:
        for t in sp.trans:
            if t.guard or st.flag(1, 2):
                t.guard = True
                if st.flag(2, 3):
                    t.tg_after = st.pick([0, 1, 2, 3, 0.5])
                if st.flag(2, 3):
                    t.tg_idle = st.pick([0, 1, 2, 3, 0.5])
    if cfg.echo:
        gs_ = [t for t in sp.trans if t.guard]
        for t in gs_[:2]:
            if st.flag(1, 2):
                t.gform = True
                s = sp.states[st.pick(sorted(sp.states))]
                if s.echo is None:
                    s.echo = (st.pick(['entry', 'exit']), t.i)
    if cfg.noact:
        for t in sp.trans:
            if t.guard and not t.sends and st.flag(1, 3):
                t.noact = True
                t.bump = False
    if cfg.brace:
        for t in sp.trans:
            if t.guard and not t.gform and t.tg_after is None and t.tg_idle is None and st.flag(1, 2):
                t.gform = 'brace'
    if cfg.time_obs:
        for s in sp.states.values():
            s.tobs = True
            if s.kind not in HIST and st.flag(1, 2):
                s.tinv.append((sp.nconds, st.pick([None, 0, 1, 2, 0.5]), st.pick([None, 0, 1, 2, 0.5])))
                sp.nconds += 1
        for t in sp.trans:
            t.tobs = True
    if cfg.contracts:
        def conds(k):
            out = []
            for _ in range(st.weighted([(0, 4), (1, 3), (2, 2), (3, 1)])):
                out.append(sp.nconds + (EXT if cfg.sentconds and st.flag(1, 3) else 0))
                sp.nconds += 1
            if cfg.dupconds and out and st.flag(1, 4):
                out.insert(st.choice(len(out) + 1), st.pick(out))     # the same text a second time: evaluated once per occurrence
            return out
        for s in sp.states.values():
            s.pre, s.post, s.inv = conds(0), conds(1), conds(2)
        for t in sp.trans:
            t.pre, t.post, t.inv = conds(0), conds(1), conds(2)


# ----------------------------------------------------------------------------- code generation

def _sends_code(sends):
    out = []
    for kind, name, delay in sends:
        if kind == 'send':
            out.append('P.send(send, %r, %r)' % (name, delay))
        elif kind == 'sendw':
            out.append('P.sendw(send, %r, %r, w, box)' % (name, delay))
        elif kind == 'anon':
            out.append('P.anon(send, %r, %r)' % (name, delay))
        else:
            out.append('P.notify(notify, %r)' % name)
    return out


def entry_code(s):
    if s.echo is not None and s.echo[0] == 'entry':
        return 'P.g(%d)' % s.echo[1]
    lines = ['P.entry(%r)' % s.name]
    if s.tobs:
        lines.append('P.obs(%r, time)' % ('entry:' + s.name))
    if s.bump_entry:
        lines.append('v = v + 1')
        lines.append('w.append(v)')
        lines.append('u[0].append(v)')
        lines.append('box.n = box.n + 1')
        lines.append("z = setdefault('z', 0) + 1")
    return '\n'.join(lines + _sends_code(s.entry_sends))


def exit_code(s):
    if s.echo is not None and s.echo[0] == 'exit':
        return 'P.g(%d)' % s.echo[1]
    lines = ['P.exit(%r)' % s.name]
    if s.tobs:
        lines.append('P.obs(%r, time)' % ('exit:' + s.name))
    if s.bump_exit:
        lines.append('v = v + 2')
        lines.append('w.append(v)')
        lines.append('u[0].append(v)')
        lines.append('box.n = box.n + 1')
    return '\n'.join(lines + _sends_code(s.exit_sends))


def action_code(t):
    if t.noact:
        return None
    lines = ['P.act(%d, event)' % t.ci]
    if t.tobs:
        lines.append('P.obs(%r, time)' % ('act:%d' % t.ci))
    if t.bump:
        lines.append('v = v + 3')
        lines.append('w.append(v)')
        lines.append('u[0].append(v)')
        lines.append('box.n = box.n + 1')
        lines.append("z = setdefault('z', 0) + 1")
    return '\n'.join(lines + _sends_code(t.sends))


def guard_code(t):
    if not t.guard:
        return None
    if t.gform == 'brace':
        return 'P.guard(%d, event) in {True}' % t.ci
    if t.gform:
        return 'P.g(%d)' % t.ci
    if t.tg_after is not None or t.tg_idle is not None:
        return 'P.tguard(%d, event, %s, %s, time)' % (
            t.ci,
            'after(%r)' % t.tg_after if t.tg_after is not None else 'None',
            'idle(%r)' % t.tg_idle if t.tg_idle is not None else 'None')
    return 'P.guard(%d, event)' % t.ci


def ttpost_code(i, d):
    return 'P.ttpost(%d, after(%r), time)' % (i, d)


def ttinv_code(i, d):
    return 'P.ttinv(%d, idle(%r), time)' % (i, d)


def tpost_code(j, a):
    return 'P.tpost(%d, after(%r), time)' % (j, a)


def tinv_code(j, a, i):
    return 'P.tcond(%d, %s, %s, time)' % (j, 'after(%r)' % a if a is not None else 'None',
                                          'idle(%r)' % i if i is not None else 'None')


def cond_code(j, kind, owner_is_transition, with_old, owner=None):
    """contract condition j. kind: 'pre' | 'post' | 'inv'.  __old__ is only available in post/inv.  The extended form of a
    state's condition also logs active(<that state>)"""
    old = '__old__' if (with_old and kind != 'pre') else 'None'
    if old == '__old__' and j % 3 == 1:
        old = '(lambda: __old__)()'      # a reference from a nested scope is a reference too
    ev = 'event' if owner_is_transition else 'None'
    if j >= EXT:
        own = ', active(%r)' % owner if (owner is not None and not owner_is_transition) else ''
        return "P.cond(%d, v, %s, %s, sent('na'), sent('ea'), received('ea')%s)" % (j, old, ev, own)
    return 'P.cond(%d, v, %s, %s)' % (j, old, ev)


_ACT = re.compile(r'P\.act\((\d+)')


_GRD = re.compile(r'P\.(?:guard|tguard|g)\((\d+)')


def tid(transition):
    """index of a sismic Transition object produced from a spec (from its action, or from its guard if it has no action)"""
    if transition.action:
        return int(_ACT.match(transition.action).group(1))
    return int(_GRD.match(transition.guard).group(1))


# ----------------------------------------------------------------------------- materialisers

def _f(x):
    """an equal but distinct str object: names are values, every API call gets its own copy (nothing may compare them with
    `is`)"""
    return None if x is None else (x + '.')[:-1]


def _state_obj(model, s, with_old=True):
    kw = dict(on_entry=entry_code(s), on_exit=exit_code(s))
    if s.kind == 'basic':
        o = model.BasicState(_f(s.name), **kw)
    elif s.kind == 'compound':
        o = model.CompoundState(_f(s.name), initial=_f(s.initial), **kw)
    elif s.kind == 'orthogonal':
        o = model.OrthogonalState(_f(s.name), **kw)
    elif s.kind == 'final':
        o = model.FinalState(_f(s.name), **kw)
    elif s.kind == 'shallow':
        o = model.ShallowHistoryState(_f(s.name), memory=_f(s.memory), **kw)
    else:
        o = model.DeepHistoryState(_f(s.name), memory=_f(s.memory), **kw)
    o.preconditions.extend(cond_code(j, 'pre', False, with_old, s.name) for j in s.pre)
    o.postconditions.extend(cond_code(j, 'post', False, with_old, s.name) for j in s.post)
    o.invariants.extend(cond_code(j, 'inv', False, with_old, s.name) for j in s.inv)
    o.invariants.extend(tinv_code(j, a, i) for j, a, i in s.tinv)
    o.postconditions.extend(tpost_code(j, a) for j, a in s.tpost)
    return o


def _trans_obj(model, t, with_old=True):
    o = model.Transition(_f(t.src), _f(t.tgt), event=_f(t.event), guard=guard_code(t), action=action_code(t),
                         priority=t.prio)
    o.preconditions.extend(cond_code(j, 'pre', True, with_old) for j in t.pre)
    o.postconditions.extend(cond_code(j, 'post', True, with_old) for j in t.post)
    o.invariants.extend(cond_code(j, 'inv', True, with_old) for j in t.inv)
    if t.tinv_idle is not None:
        o.invariants.append(ttinv_code(t.i, t.tinv_idle))
    if t.tpost_after is not None:
        o.postconditions.append(ttpost_code(t.i, t.tpost_after))
    return o


PREAMBLE = 'v = 0\nw = []\nu = [[]]\nbox = P.newbox()'


def build_api(sp, order=None, name='gen', preamble=None):
    """Materialise through add_state/add_transition.  `order`: a Stream permuting the call order
    (parents still before children) or None for creation order."""
    from sismic import model
    sc = model.Statechart(name, preamble=preamble or PREAMBLE)
    pending = list(sp.states)
    added = set()
    while pending:
        ready = [n for n in pending if sp.states[n].parent is None or sp.states[n].parent in added]
        n = ready[order.choice(len(ready))] if order is not None else ready[0]
        pending.remove(n)
        added.add(n)
        sc.add_state(_state_obj(model, sp.states[n]), _f(sp.states[n].parent))
    ts = list(sp.trans)
    if order is not None:
        ts = order.shuffle(ts)
    for t in ts:
        sc.add_transition(_trans_obj(model, t))
    sc.validate()
    return sc


def to_dict(sp, order=None, name='gen'):
    """A YAML-able description (the documented format).  `order` permutes sibling states and each
    state's transition list."""
    def cond_list(o, is_t):
        out = []
        own = None if is_t else o.name
        out += [{'before': cond_code(j, 'pre', is_t, True, own)} for j in o.pre]
        out += [{'after': cond_code(j, 'post', is_t, True, own)} for j in o.post]
        out += [{'always': cond_code(j, 'inv', is_t, True, own)} for j in o.inv]
        if not is_t:
            out += [{'always': tinv_code(j, a, i)} for j, a, i in o.tinv]
            out += [{'after': tpost_code(j, a)} for j, a in o.tpost]
        else:
            if o.tinv_idle is not None:
                out += [{'always': ttinv_code(o.i, o.tinv_idle)}]
            if o.tpost_after is not None:
                out += [{'after': ttpost_code(o.i, o.tpost_after)}]
        return out

    def st(n):
        s = sp.states[n]
        d = {'name': n}
        if s.kind == 'final':
            d['type'] = 'final'
        elif s.kind == 'shallow':
            d['type'] = 'shallow history'
        elif s.kind == 'deep':
            d['type'] = 'deep history'
        if s.memory:
            d['memory'] = s.memory
        if s.initial:
            d['initial'] = s.initial
        d['on entry'] = entry_code(s)
        d['on exit'] = exit_code(s)
        c = cond_list(s, False)
        if c:
            d['contract'] = c
        ts = [t for t in sp.trans if t.src == n]
        if order is not None:
            ts = order.shuffle(ts)
        if ts:
            d['transitions'] = []
            for t in ts:
                td = {}
                if t.tgt is not None:
                    td['target'] = t.tgt
                if t.event is not None:
                    td['event'] = t.event
                g = guard_code(t)
                if g:
                    td['guard'] = g
                if action_code(t) is not None:
                    td['action'] = action_code(t)
                if t.prio != 0:
                    td['priority'] = {1: 'high', -1: 'low'}.get(t.prio, t.prio)
                c = cond_list(t, True)
                if c:
                    td['contract'] = c
                d['transitions'].append(td)
        kids = list(s.children)
        if order is not None:
            kids = order.shuffle(kids)
        if kids:
            d['states' if s.kind == 'compound' else 'parallel states'] = [st(k) for k in kids]
        return d
    return {'statechart': {'name': name, 'preamble': PREAMBLE, 'root state': st(sp.root)}}


def to_yaml(sp, order=None, name='gen'):
    import ruamel.yaml as yaml
    from io import StringIO
    out = StringIO()
    y = yaml.YAML(typ='safe', pure=True)
    y.default_flow_style = False      # block style only: the harness' own documents must be unambiguous
    y.width = 4096
    y.dump(to_dict(sp, order, name), out)
    return out.getvalue()


def build_yaml(sp, order=None, name='gen'):
    from sismic.io import import_from_yaml
    return import_from_yaml(to_yaml(sp, order, name))


def build_via_edits(sp, st, name='gen', preamble=None):
    """Materialise the chart by a detour: some subtrees are first attached somewhere else, the half-built
    chart is executed and queried (which is what warms any cache inside the model), and only then the
    subtrees are moved to where they belong with move_state / rename_state.  The result must be the same
    statechart as build_api(sp): it is the same abstract chart, reached through the editing API."""
    from sismic import model
    from sismic.interpreter import Interpreter
    sc = model.Statechart(name, preamble=preamble or PREAMBLE)
    moved = {}      # state -> temporary parent
    alias = {}      # state -> temporary name
    for n, s in sp.states.items():
        parent = s.parent
        if parent is not None and st.flag(1, 4):
            # candidates: composite states already added that are not n's proper parent
            cands = [m for m in sc.states if sp.kind(_orig(alias, m)) in ('compound', 'orthogonal')
                     and _orig(alias, m) != parent]
            if s.kind in HIST:
                cands = [m for m in cands if sp.kind(_orig(alias, m)) == 'compound']
            if cands:
                moved[n] = st.pick(cands)
        o = _state_obj(model, s)
        if st.flag(1, 6):
            alias[n] = n + '_tmp'
            o._name = alias[n]
        if hasattr(o, 'initial'):
            o.initial = None
        if hasattr(o, 'memory'):
            o.memory = None
        tp = moved.get(n, parent)
        tp = alias.get(tp, tp) if tp is not None and tp in alias and tp in sp.states else tp
        sc.add_state(o, _f(tp))
    for t in sp.trans:
        o = _trans_obj(model, t)
        o._source = alias.get(t.src, t.src)
        if t.tgt is not None:
            o._target = alias.get(t.tgt, t.tgt)
        sc.add_transition(o)
    # warm-up: execute and query the half-built chart
    try:
        from sim.probes import Probe
        it = Interpreter(sc, initial_context={'P': Probe()})
        for _ in range(3):
            it.execute_once()
    except Exception:
        pass
    for m in sc.states:
        sc.depth_for(m)
        sc.descendants_for(m)
        sc.ancestors_for(m)
    # now the edits
    for n in st.shuffle(sorted(moved)):
        sc.move_state(_f(alias.get(n, n)), _f(alias.get(sp.states[n].parent, sp.states[n].parent)))
    for n in st.shuffle(sorted(alias)):
        sc.rename_state(_f(alias[n]), _f(n))
    for n, s in sp.states.items():
        o = sc.state_for(n)
        if s.initial is not None:
            o.initial = s.initial
        if s.memory is not None:
            o.memory = s.memory
    sc.validate()
    return sc, len(moved), len(alias)


def _orig(alias, m):
    for k, v in alias.items():
        if v == m:
            return k
    return m

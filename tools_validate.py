import json, glob, jsonschema
ms = json.load(open('/root/.vp/MANIFEST.schema.json')); es = json.load(open('/root/.vp/EVIDENCE.schema.json'))
jsonschema.validate(json.load(open('MANIFEST.json')), ms)
for f in sorted(glob.glob('evidence/*.json')):
    d = json.load(open(f)); jsonschema.validate(d, es)
    print(f, d['tier'], d['coverage']['evaluations'], d['coverage']['distinct_nontrivial'], d['violations'], d['wall_s'])
print('valid')

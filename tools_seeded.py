"""Confirms and files an independently written breaking change, then runs the checks against it.

usage:
  python tools_seeded.py import <worktree> <id> <property>   confirm (tests unchanged, demo 0 without / 1 with) and copy to seeded/<id>/
  python tools_seeded.py run [<id> ...] [--budget S] [--checks C01,C03]   run the property's check (and --checks) against each seeded change

All work happens on scratch copies of /repo under mktemp (removed afterwards); /repo itself is never touched.
"""
import json
import os
import shutil
import subprocess
import sys
import tempfile

HERE = os.path.dirname(os.path.abspath(__file__))
PY = '/venv/bin/python'
BASE_TESTS = '5 failed, 339 passed, 1 xpassed'


def scratch(patch=None):
    tmp = tempfile.mkdtemp(prefix='sismic-seeded-')
    dst = os.path.join(tmp, 'repo')
    shutil.copytree('/repo', dst, ignore=shutil.ignore_patterns('.git', '__pycache__', '*.egg-info'))
    if patch:
        p = subprocess.run(['git', 'apply', '--whitespace=nowarn', patch], cwd=dst, capture_output=True, text=True)
        if p.returncode != 0:
            shutil.rmtree(tmp, ignore_errors=True)
            raise RuntimeError('patch does not apply: ' + p.stderr)
    return tmp, dst


def run_tests(dst):
    p = subprocess.run([PY, '-m', 'pytest', '-q', '-p', 'no:cacheprovider', 'tests'], cwd=dst, capture_output=True, text=True,
                       env=dict(os.environ, PYTHONPATH=dst))
    return p.stdout.strip().splitlines()[-1] if p.stdout.strip() else p.stderr[-200:]


def run_demo(dst, demo):
    p = subprocess.run([PY, demo], cwd=dst, capture_output=True, text=True, env=dict(os.environ, PYTHONPATH=dst), timeout=900)
    return p.returncode, (p.stdout + p.stderr)[-400:]


def cmd_import(wt, sid, prop):
    out = os.path.join(HERE, 'seeded', sid)
    os.makedirs(out, exist_ok=True)
    patch = os.path.join(wt, 'patch.diff')
    demo = os.path.join(wt, 'demo.py')
    # keep only the library part of the diff
    diff = subprocess.run(['git', 'diff', '--', 'sismic'], cwd=wt, capture_output=True, text=True).stdout
    if not diff.strip():
        diff = open(patch).read()
    open(os.path.join(out, 'patch.diff'), 'w').write(diff)
    shutil.copy(demo, os.path.join(out, 'demo.py'))
    note = open(os.path.join(wt, 'meta.txt')).read() if os.path.exists(os.path.join(wt, 'meta.txt')) else ''
    meta = {'id': sid, 'property': prop, 'author_note': note, 'confirmed': {}}
    t0, clean = scratch()
    t1, bad = scratch(os.path.join(out, 'patch.diff'))
    try:
        meta['confirmed']['tests_without_change'] = run_tests(clean)
        meta['confirmed']['tests_with_change'] = run_tests(bad)
        rc0, o0 = run_demo(clean, os.path.join(out, 'demo.py'))
        rc1, o1 = run_demo(bad, os.path.join(out, 'demo.py'))
        meta['confirmed']['demo_exit_without_change'] = rc0
        meta['confirmed']['demo_exit_with_change'] = rc1
        meta['confirmed']['demo_output_with_change'] = o1
        ok = (rc0 == 0 and rc1 != 0 and BASE_TESTS in meta['confirmed']['tests_with_change']
              and BASE_TESTS in meta['confirmed']['tests_without_change'])
        meta['confirmed']['ok'] = ok
        meta['what_was_run'] = ['scratch copy of /repo (HEAD with the fix: commits); git apply seeded/%s/patch.diff' % sid,
                                'PYTHONPATH=<copy> /venv/bin/python -m pytest -q -p no:cacheprovider tests   (with and without the change)',
                                'PYTHONPATH=<copy> /venv/bin/python seeded/%s/demo.py   (with and without the change)' % sid]
    finally:
        shutil.rmtree(t0, ignore_errors=True)
        shutil.rmtree(t1, ignore_errors=True)
    json.dump(meta, open(os.path.join(out, 'meta.json'), 'w'), indent=1)
    print(sid, prop, 'CONFIRMED' if meta['confirmed']['ok'] else 'NOT-CONFIRMED', meta['confirmed'])
    return 0 if meta['confirmed']['ok'] else 1


def cmd_run(ids, budget, extra_checks):
    base = os.path.join(HERE, 'seeded')
    ids = ids or sorted(os.listdir(base))
    rows = []
    for sid in ids:
        mpath = os.path.join(base, sid, 'meta.json')
        if not os.path.exists(mpath):
            continue
        meta = json.load(open(mpath))
        checks = [meta['property']] + [c for c in extra_checks if c != meta['property']]
        tmp, dst = scratch(os.path.join(base, sid, 'patch.diff'))
        try:
            for c in checks:
                env = dict(os.environ, SISMIC_SRC=dst, VERIF_BUDGET_S=str(budget), PYTHONHASHSEED='0', VERIF_SHRINK_S='5')
                p = subprocess.run([PY, '-m', 'sim', 'check', c, '--tier', 'quick'], cwd=HERE, env=env, capture_output=True, text=True)
                viol = [l for l in p.stdout.splitlines() if l.startswith('violation ')]
                rp = [l for l in p.stdout.splitlines() if l.startswith('VIOLATION')]
                replay = ''
                if rp:
                    path_r = rp[0].split('replay=')[1]
                    q = subprocess.run([PY, '-m', 'sim', 'replay', path_r], cwd=HERE, env=env, capture_output=True, text=True)
                    replay = 'replay-exact' if 'REPRODUCED-EXACTLY' in q.stdout else 'replay-DIFFERS'
                    q2 = subprocess.run([PY, '-m', 'sim', 'replay', path_r], cwd=HERE, env=dict(os.environ, PYTHONHASHSEED='0'),
                                        capture_output=True, text=True)
                    replay += (', clean on /repo' if q2.returncode == 0 else
                               ', on /repo the same record is an instance of a known finding' if 'is an instance of known finding' in q2.stdout
                               else ', ALSO FAILS ON /repo')
                    os.remove(path_r)
                row = {'check': c, 'exit': p.returncode, 'violation': viol[0][:300] if viol else '', 'replay': replay,
                       'budget_s': budget}
                rows.append((sid, row))
                meta.setdefault('checks_run', {})[c] = row
                print(sid, c, 'rc=%d' % p.returncode, (viol[0][:160] if viol else p.stdout.strip().splitlines()[-1][:160]), replay)
                sys.stdout.flush()
        finally:
            shutil.rmtree(tmp, ignore_errors=True)
        json.dump(meta, open(mpath, 'w'), indent=1)
    print('NOTE: evidence files of the touched properties were rewritten by these runs; re-run the checks on /repo.')
    return 0


if __name__ == '__main__':
    a = sys.argv[1:]
    if a and a[0] == 'import':
        sys.exit(cmd_import(a[1], a[2], a[3]))
    if a and a[0] == 'run':
        budget = 15
        extra = []
        if '--budget' in a:
            budget = int(a[a.index('--budget') + 1])
        if '--checks' in a:
            extra = a[a.index('--checks') + 1].split(',')
        ids = [x for x in a[1:] if not x.startswith('--') and x not in (str(budget), ','.join(extra))]
        sys.exit(cmd_run(ids, budget, extra))
    print(__doc__)
